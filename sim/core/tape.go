// Package core holds what every engine shares: the choice tape (the single
// source of nondeterminism of a simulated run), the run context with event log
// and counters, the choice-list shrinker, the process fan-out driver, replay
// files, known findings and the evidence writer.
package core

// Tape is the one and only source of choices of a simulated run.  In search
// mode it is a SplitMix64 stream derived from (VERIF_SEED, property, scenario,
// run index); in replay mode it plays back a recorded choice list (clamped
// into range, zero once exhausted).  Every draw is recorded, so a finished run
// can always be turned into a replay file.
//
// All methods are //go:norace and call nothing instrumented: the simulated
// thread pool draws from the tape on whichever executor goroutine holds the
// baton, and the baton hand-offs are deliberately hidden from the race
// detector (see sim/simpool).
type Tape struct {
	replay  bool
	src     []int
	pos     int
	s       uint64
	Rec     []int
	limit   int // max draws (0 = unlimited); exceeding sets Overrun
	Overrun bool
}

//go:norace
func splitmix(s *uint64) uint64 {
	*s += 0x9e3779b97f4a7c15
	z := *s
	z = (z ^ (z >> 30)) * 0xbf58476d1ce4e5b9
	z = (z ^ (z >> 27)) * 0x94d049bb133111eb
	return z ^ (z >> 31)
}

// Mix derives a run seed from the base seed and labels; pure function.
func Mix(seed uint64, labels ...string) uint64 {
	h := seed ^ 0x51ed270b0a1f3c55
	for _, l := range labels {
		for i := 0; i < len(l); i++ {
			h ^= uint64(l[i])
			h *= 0x100000001b3
		}
		h ^= 0xff
		h *= 0x100000001b3
	}
	s := h
	return splitmix(&s)
}

func MixInt(seed uint64, i int) uint64 {
	s := seed ^ (uint64(i)+1)*0xd1342543de82ef95
	return splitmix(&s)
}

func NewSeedTape(seed uint64) *Tape {
	return &Tape{s: seed, Rec: make([]int, 0, 256)}
}

func NewReplayTape(choices []int) *Tape {
	return &Tape{replay: true, src: choices, Rec: make([]int, 0, len(choices)+16)}
}

// Choose returns a value in [0,n).  n<=1 still consumes one tape cell so that
// the tape layout does not depend on run-time sizes more than necessary.
//
//go:norace
func (t *Tape) Choose(n int) int {
	var v int
	if t.replay {
		if t.pos < len(t.src) {
			v = t.src[t.pos]
		}
		t.pos++
		if v < 0 {
			v = 0
		}
		if n <= 1 {
			v = 0
		} else if v >= n {
			v = v % n
		}
	} else {
		r := splitmix(&t.s)
		if n <= 1 {
			v = 0
		} else {
			v = int(r % uint64(n))
		}
	}
	t.Rec = append(t.Rec, v)
	return v
}

// Used reports how many cells have been consumed.
//
//go:norace
func (t *Tape) Used() int { return len(t.Rec) }

// Bool is true with probability num/den.
//
//go:norace
func (t *Tape) Bool(num, den int) bool { return t.Choose(den) < num }

// Range returns a value in [lo,hi] inclusive.
//
//go:norace
func (t *Tape) Range(lo, hi int) int {
	if hi < lo {
		hi = lo
	}
	return lo + t.Choose(hi-lo+1)
}

// Float returns a value in [0,1) with 24 bits of resolution; 0 is the
// simplest value, so shrinking drives floats towards 0.
//
//go:norace
func (t *Tape) Float() float64 {
	return float64(t.Choose(1<<24)) / float64(1<<24)
}

// Pick chooses an index according to integer weights.
//
//go:norace
func (t *Tape) Pick(weights []int) int {
	total := 0
	for _, w := range weights {
		total += w
	}
	if total <= 0 {
		t.Choose(1)
		return 0
	}
	v := t.Choose(total)
	for i, w := range weights {
		if v < w {
			return i
		}
		v -= w
	}
	return len(weights) - 1
}
