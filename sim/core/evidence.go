package core

import (
	"encoding/json"
	"fmt"
	"os"
	"path/filepath"
	"sort"
	"time"
)

func writeEvidence(p *Property, tier string, seed uint64, start time.Time, st *checkState, avoid map[string]bool, nviol int, known, notes, sigs []string, skipped int) {
	wall := time.Since(start).Seconds()
	cov := map[string]interface{}{}
	runs, nontriv := 0, 0
	var steps int64
	stats := map[string]int{}
	perSc := map[string]map[string]int{}
	samples := []interface{}{}
	var digest uint64
	if st != nil {
		for _, a := range st.aggs {
			runs += a.Runs
			nontriv += a.Nontriv
			steps += a.Steps
			digest += a.Digest
			for k, v := range a.Stats {
				stats[k] += v
			}
			m := perSc[a.Scenario]
			if m == nil {
				m = map[string]int{}
				perSc[a.Scenario] = m
			}
			m["runs"] += a.Runs
			m["nontrivial"] += a.Nontriv
			if len(samples) < 6 {
				for _, s := range a.Samples {
					if len(samples) < 6 {
						samples = append(samples, s)
					}
				}
			}
		}
	}
	distinct := 0
	if st != nil {
		distinct = len(st.hashes)
	}
	if len(samples) == 0 {
		samples = append(samples, "no sample recorded (no run completed)")
	}
	cov["evaluations"] = runs
	cov["distinct_nontrivial"] = distinct
	cov["nontrivial_runs"] = nontriv
	cov["rule"] = p.Rule
	cov["samples"] = samples
	cov["exhaustive"] = false
	cov["engine"] = p.Engine
	cov["per_scenario"] = perSc
	cov["simulated_time"] = map[string]interface{}{"unit": p.StepUnit, "total": steps}
	if wall > 0 {
		cov["runs_per_hour"] = int(float64(runs) / wall * 3600)
		cov["seeds_per_hour"] = int(float64(runs) / wall * 3600)
	}
	faults := map[string]int{}
	probes := map[string]int{}
	other := map[string]int{}
	for _, k := range sortedKeys(stats) {
		switch {
		case len(k) > 6 && k[:6] == "fault:":
			faults[k[6:]] = stats[k]
		case len(k) > 6 && k[:6] == "probe:":
			probes[k[6:]] = stats[k]
		default:
			other[k] = stats[k]
		}
	}
	cov["faults_injected_and_hit"] = faults
	cov["rare_branch_probes"] = probes
	cov["counters"] = other
	cov["components_real_code"] = p.RealCode
	cov["components_stubbed"] = p.Stubs
	cov["caps"] = p.Caps
	cov["runs_skipped_by_wall_clock_cap"] = skipped
	cov["batch_log_digest"] = fmt.Sprintf("%016x", digest)
	cov["known_findings_seen"] = known
	cov["notes"] = notes
	av := []string{}
	for k := range avoid {
		av = append(av, k)
	}
	sort.Strings(av)
	cov["avoidance_predicates_active"] = av
	cov["violation_signatures"] = sigs
	ev := map[string]interface{}{
		"property_id": p.ID,
		"tier":        tier,
		"seed":        int64(seed),
		"level":       p.Level,
		"coverage":    cov,
		"assumptions": p.Assumptions,
		"wall_s":      wall,
		"violations":  nviol,
	}
	dir := filepath.Join(VerifDir(), "evidence")
	os.MkdirAll(dir, 0o755)
	b, err := json.MarshalIndent(ev, "", " ")
	if err != nil {
		fmt.Fprintln(os.Stderr, "HARNESS: evidence not serialisable:", err)
		os.Exit(2)
	}
	os.WriteFile(filepath.Join(dir, p.ID+".json"), b, 0o644)
}
