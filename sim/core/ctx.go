package core

import (
	"fmt"
	"runtime"
	"sort"
	"strings"
)

// Violation is what an oracle reports.  Signature identifies the violation
// class (oracle | operation kind | object class | failure class); it is what
// shrinking preserves and what known findings are matched on.
type Violation struct {
	Oracle    string `json:"oracle"`
	Signature string `json:"signature"`
	Message   string `json:"message"`
}

type abortRun struct{}

// Ctx is the per-run context handed to an engine: tape, event log, counters.
type Ctx struct {
	Tape     *Tape
	Property string
	Scenario string
	Keep     bool // keep event strings (replay / violation re-run)
	Avoid    map[string]bool
	Events   []string
	seq      int
	logHash  uint64
	stateH   uint64
	Stats    map[string]int
	Steps    int // simulated time: engine-defined step unit
	Nontriv  bool
	Viol     *Violation
	Sample   interface{}
	Info     map[string]string
}

func newCtx(prop, sc string, t *Tape, keep bool, avoid map[string]bool) *Ctx {
	return &Ctx{Tape: t, Property: prop, Scenario: sc, Keep: keep, Avoid: avoid,
		logHash: 0xcbf29ce484222325, stateH: 0xcbf29ce484222325, Stats: map[string]int{}}
}

// Logf appends one event to the totally ordered event log.  It never draws
// from the tape and never reads a clock.
func (c *Ctx) Logf(format string, args ...interface{}) {
	s := fmt.Sprintf(format, args...)
	c.seq++
	for i := 0; i < len(s); i++ {
		c.logHash ^= uint64(s[i])
		c.logHash *= 0x100000001b3
	}
	c.logHash ^= 0x0a
	c.logHash *= 0x100000001b3
	if c.Keep {
		if len(c.Events) < 4000 {
			c.Events = append(c.Events, fmt.Sprintf("%04d %s", c.seq, s))
		}
	}
}

// State folds an abstract model state into the distinctness measure.
func (c *Ctx) State(h uint64) {
	c.stateH ^= h
	c.stateH *= 0x100000001b3
}

func (c *Ctx) StateStr(s string) {
	h := uint64(0xcbf29ce484222325)
	for i := 0; i < len(s); i++ {
		h ^= uint64(s[i])
		h *= 0x100000001b3
	}
	c.State(h)
}

func (c *Ctx) Count(name string)         { c.Stats[name]++ }
func (c *Ctx) CountN(name string, n int) { c.Stats[name] += n }

// Fail records the (first) violation and aborts the run.
func (c *Ctx) Fail(oracle, sig, format string, args ...interface{}) {
	if c.Viol == nil {
		msg := fmt.Sprintf(format, args...)
		if len(msg) > 1500 {
			msg = msg[:1500] + "…"
		}
		c.Viol = &Violation{Oracle: oracle, Signature: c.Property + "|" + oracle + "|" + sig, Message: msg}
		c.Logf("VIOLATION %s: %s", c.Viol.Signature, msg)
	}
	panic(abortRun{})
}

// Try runs f and returns the recovered panic value (nil if none) together with
// a short description of the innermost autodiff frame that panicked.
func Try(f func()) (pv interface{}, where string) {
	defer func() {
		if r := recover(); r != nil {
			if _, ok := r.(abortRun); ok {
				panic(r)
			}
			if _, ok := r.(TickBudget); ok {
				panic(r)
			}
			pv = r
			where = PanicSite()
		}
	}()
	f()
	return nil, ""
}

// TickBudget is the sentinel the step clock panics with (engine E).
type TickBudget struct {
	Site  string
	Ticks int
}

// PanicSite returns "pkg.func" of the innermost frame inside
// github.com/pbenner/autodiff on the current (panicking) stack, or the
// innermost verif frame if there is none.
func PanicSite() string {
	pcs := make([]uintptr, 64)
	n := runtime.Callers(3, pcs)
	frames := runtime.CallersFrames(pcs[:n])
	first := ""
	for {
		fr, more := frames.Next()
		fn := fr.Function
		if strings.HasPrefix(fn, "github.com/pbenner/autodiff") {
			return strings.TrimPrefix(fn, "github.com/pbenner/")
		}
		if first == "" && strings.HasPrefix(fn, "verif/") {
			first = fn
		}
		if !more {
			break
		}
	}
	if first != "" {
		return "harness:" + first
	}
	return "unknown"
}

// PanicClass maps a panic value to a coarse, stable class for signatures.
func PanicClass(pv interface{}) string {
	s := fmt.Sprint(pv)
	switch {
	case strings.Contains(s, "nil pointer dereference"):
		return "nil-deref"
	case strings.Contains(s, "index out of range"):
		return "index-out-of-range"
	case strings.Contains(s, "slice bounds out of range"):
		return "slice-bounds"
	case strings.Contains(s, "integer divide by zero"):
		return "div-by-zero"
	case strings.Contains(s, "interface conversion"):
		return "type-assertion"
	case strings.Contains(s, "makeslice"):
		return "makeslice"
	}
	if _, ok := pv.(runtime.Error); ok {
		return "runtime-error"
	}
	return "library-panic"
}

func sortedKeys(m map[string]int) []string {
	ks := make([]string, 0, len(m))
	for k := range m {
		ks = append(ks, k)
	}
	sort.Strings(ks)
	return ks
}
