package core

// Shrink minimises a failing choice list.  test(choices) re-executes the run
// from the list and reports the violation signature ("" = no violation) and
// the number of tape cells the run consumed.  A candidate is kept only if it
// fails with exactly the wanted signature.  Deleting cells drops operations or
// faults (generators read the tape prefix-stably), lowering cells prefers the
// first (simplest) alternative and smaller arguments.
func Shrink(choices []int, want string, budget int, test func([]int) (string, int)) ([]int, int) {
	execs := 0
	try := func(c []int) (bool, int) {
		if execs >= budget {
			return false, 0
		}
		execs++
		sig, used := test(c)
		return sig == want, used
	}
	cur := append([]int(nil), choices...)
	trim := func(used int) {
		if used >= 0 && used < len(cur) {
			cur = cur[:used]
		}
		for len(cur) > 0 && cur[len(cur)-1] == 0 {
			cur = cur[:len(cur)-1]
		}
	}
	if ok, used := try(cur); ok {
		trim(used)
	} else {
		return cur, execs // does not reproduce: leave untouched
	}
	for round := 0; round < 12 && execs < budget; round++ {
		progress := false
		// 1. delete chunks
		for size := len(cur) / 2; size >= 1; size /= 2 {
			for start := 0; start+size <= len(cur); {
				cand := make([]int, 0, len(cur)-size)
				cand = append(cand, cur[:start]...)
				cand = append(cand, cur[start+size:]...)
				if ok, used := try(cand); ok {
					cur = cand
					trim(used)
					progress = true
				} else {
					start += size
				}
				if execs >= budget {
					break
				}
			}
		}
		// 2. zero, then halve, then decrement single cells
		for i := 0; i < len(cur) && execs < budget; i++ {
			if cur[i] == 0 {
				continue
			}
			for _, nv := range []int{0, cur[i] / 2, cur[i] - 1} {
				if nv >= cur[i] || nv < 0 {
					continue
				}
				cand := append([]int(nil), cur...)
				cand[i] = nv
				if ok, used := try(cand); ok {
					cur = cand
					trim(used)
					progress = true
					break
				}
			}
		}
		if !progress {
			break
		}
	}
	return cur, execs
}
