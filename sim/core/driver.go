package core

import (
	"bufio"
	"crypto/sha256"
	"encoding/hex"
	"encoding/json"
	"flag"
	"fmt"
	"math"
	"os"
	"os/exec"
	"path/filepath"
	"sort"
	"strconv"
	"strings"
	"sync"
	"time"
)

// VerifDir is where MANIFEST.json lives; the check binary is always started
// by bin/check with cwd=/verif, but be robust.
func VerifDir() string {
	if d := os.Getenv("VERIF_DIR"); d != "" {
		return d
	}
	return "/verif"
}

// ReplayFile is the on-disk form of one violation.
type ReplayFile struct {
	Property  string     `json:"property"`
	Engine    string     `json:"engine"`
	Scenario  string     `json:"scenario"`
	Seed      uint64     `json:"seed"`
	RunIndex  int        `json:"run_index"`
	Choices   []int      `json:"choices"`
	Avoid     []string   `json:"avoid,omitempty"`
	Violation *Violation `json:"violation"`
	Events    []string   `json:"events"`
	RepoHead  string     `json:"repo_head"`
	Note      string     `json:"note,omitempty"`
	// FromSeed: the run killed its process (fatal runtime error, data race
	// halt, hang), so no choice list could be recorded; the run is re-created
	// from (seed, scenario, run_index) and replayed in a child process.
	FromSeed bool   `json:"from_seed,omitempty"`
	Stderr   string `json:"stderr,omitempty"`
	// Flaky: the same choice list does not always produce the violation.  The
	// simulator decides every choice of the harness (see bin/audit); what it
	// cannot decide is the iteration order of Go maps inside the library
	// (sparse ReverseOrder/Permute rebuild their index in map order), which is
	// unobservable while the containers are coherent.  Replay repeats the run
	// until the violation shows (Attempts = repetitions needed when recorded).
	Flaky    bool `json:"flaky,omitempty"`
	Attempts int  `json:"attempts,omitempty"`
}

const flakyAttempts = 400

type workerViolation struct {
	Scenario   string     `json:"scenario"`
	RunIndex   int        `json:"run_index"`
	RawSig     string     `json:"raw_sig"`
	Violation  *Violation `json:"violation"`
	Choices    []int      `json:"choices"`
	Events     []string   `json:"events"`
	ShrinkExec int        `json:"shrink_execs"`
	OrigLen    int        `json:"orig_len"`
	FromSeed   bool       `json:"from_seed,omitempty"`
	Stderr     string     `json:"stderr,omitempty"`
	Flaky      bool       `json:"flaky,omitempty"`
	Attempts   int        `json:"attempts,omitempty"`
}

type workerAgg struct {
	Scenario string         `json:"scenario"`
	From     int            `json:"from"`
	To       int            `json:"to"`
	Runs     int            `json:"runs"`
	Nontriv  int            `json:"nontrivial"`
	Steps    int64          `json:"steps"`
	Stats    map[string]int `json:"stats"`
	Digest   uint64         `json:"digest"`
	Samples  []interface{}  `json:"samples"`
	Harness  string         `json:"harness,omitempty"`
	SigCount map[string]int `json:"sig_count"`
}

func avoidSet(s string) map[string]bool {
	m := map[string]bool{}
	for _, a := range strings.Split(s, ",") {
		if a != "" {
			m[a] = true
		}
	}
	return m
}

func avoidList(m map[string]bool) string {
	ks := []string{}
	for k := range m {
		ks = append(ks, k)
	}
	sort.Strings(ks)
	return strings.Join(ks, ",")
}

// ExitHooks run before the process exits normally (scratch directories).
var ExitHooks []func()

// Main is the entry point of every engine binary.
func Main() {
	if len(os.Args) < 2 {
		fmt.Fprintln(os.Stderr, "usage: check|worker|replay|probe|one|digest ...")
		os.Exit(2)
	}
	exit := func(code int) {
		for _, f := range ExitHooks {
			f()
		}
		os.Exit(code)
	}
	switch os.Args[1] {
	case "check":
		exit(cmdCheck(os.Args[2:]))
	case "worker":
		exit(cmdWorker(os.Args[2:]))
	case "replay":
		exit(cmdReplay(os.Args[2:]))
	case "probe":
		exit(cmdProbe(os.Args[2:]))
	case "one":
		exit(cmdOne(os.Args[2:]))
	case "digest":
		exit(cmdDigest(os.Args[2:]))
	case "list":
		for _, id := range order {
			fmt.Println(id)
		}
		os.Exit(0)
	}
	fmt.Fprintln(os.Stderr, "unknown command", os.Args[1])
	os.Exit(2)
}

func (p *Property) stallDefault() int {
	if p.StallS > 0 {
		return p.StallS
	}
	return 120
}

func getProp(id string) *Property {
	p, ok := registry[id]
	if !ok {
		fmt.Fprintf(os.Stderr, "unknown property %q in this binary (have %v)\n", id, order)
		os.Exit(2)
	}
	return p
}

func runSeed(seed uint64, prop, sc string, i int) uint64 {
	return MixInt(Mix(seed, prop, sc), i)
}

/* worker -------------------------------------------------------------------- */

func cmdWorker(args []string) int {
	fs := flag.NewFlagSet("worker", flag.ExitOnError)
	prop := fs.String("property", "", "")
	sc := fs.String("scenario", "", "")
	seed := fs.Uint64("seed", 0, "")
	from := fs.Int("from", 0, "")
	to := fs.Int("to", 0, "")
	avoid := fs.String("avoid", "", "")
	noshrink := fs.Bool("noshrink", false, "")
	fs.Parse(args)
	p := getProp(*prop)
	av := avoidSet(*avoid)
	w := bufio.NewWriterSize(os.Stdout, 1<<16)
	defer w.Flush()
	agg := workerAgg{Scenario: *sc, From: *from, To: *to, Stats: map[string]int{}, SigCount: map[string]int{}}
	hashes := make([]uint64, 0, *to-*from)
	for i := *from; i < *to; i++ {
		if p.Isolated || p.MarkEveryRun || i%64 == 0 {
			fmt.Fprintf(w, "S %d\n", i)
			w.Flush()
		}
		t := NewSeedTape(runSeed(*seed, p.ID, *sc, i))
		out := Execute(p, *sc, t, false, av)
		agg.Runs++
		agg.Steps += int64(out.Steps)
		agg.Digest += out.LogHash
		for k, v := range out.Stats {
			agg.Stats[k] += v
		}
		if out.Harness != "" {
			agg.Harness = fmt.Sprintf("run %d: %s", i, out.Harness)
			break
		}
		if out.Nontriv {
			agg.Nontriv++
			hashes = append(hashes, out.StateH)
		}
		if len(agg.Samples) < 1 && out.Nontriv && out.Viol == nil && (i-*from)%7 == 3 {
			// write the case out: re-execute it with the event log kept
			so := Execute(p, *sc, NewReplayTape(out.Choices), true, av)
			ev := so.Events
			if len(ev) > 40 {
				ev = append(append([]string{}, ev[:40]...), fmt.Sprintf("… %d more events", len(so.Events)-40))
			}
			agg.Samples = append(agg.Samples, map[string]interface{}{"scenario": *sc, "run_index": i, "summary": jsonSafe(out.Sample), "events": ev})
		}
		if out.Viol != nil {
			raw := out.Viol.Signature
			agg.SigCount[raw]++
			if agg.SigCount[raw] > 1 {
				continue // same class already minimised in this batch
			}
			wv := workerViolation{Scenario: *sc, RunIndex: i, RawSig: raw, OrigLen: len(out.Choices)}
			choices := out.Choices
			if !*noshrink {
				budget := p.ShrinkBudget
				if budget == 0 {
					budget = 1500
				}
				// shrinking is bounded in executions and in wall time, and keeps
				// the parent's stall watchdog informed
				deadline := time.Now().Add(25 * time.Second)
				lastBeat := time.Now()
				choices, wv.ShrinkExec = Shrink(choices, raw, budget, func(c []int) (string, int) {
					if time.Now().After(deadline) {
						return "", len(c)
					}
					if time.Since(lastBeat) > 5*time.Second {
						lastBeat = time.Now()
						fmt.Fprintf(w, "S %d\n", i)
						w.Flush()
					}
					o := Execute(p, *sc, NewReplayTape(c), false, av)
					if o.Viol == nil {
						return "", o.Used
					}
					return o.Viol.Signature, o.Used
				})
			}
			fin := Execute(p, *sc, NewReplayTape(choices), true, av)
			if fin.Viol == nil || fin.Viol.Signature != raw {
				// the harness is deterministic (bin/audit); the library is not
				// where it walks a Go map.  Repeat: the minimised list first,
				// then the list as recorded.
				found := false
				for _, cl := range [][]int{choices, out.Choices} {
					for k := 1; k <= flakyAttempts/2 && !found; k++ {
						fin = Execute(p, *sc, NewReplayTape(cl), true, av)
						if fin.Viol != nil && fin.Viol.Signature == raw {
							found, choices, wv.Flaky, wv.Attempts = true, cl, true, k
						}
					}
					if found {
						break
					}
				}
				if !found {
					agg.Harness = fmt.Sprintf("run %d: violation %s does not replay from its own choice list (%d repetitions)", i, raw, flakyAttempts)
					break
				}
			}
			wv.Violation = fin.Viol
			wv.Choices = choices
			wv.Events = fin.Events
			b, _ := json.Marshal(wv)
			fmt.Fprintf(w, "V %s\n", b)
			w.Flush()
		}
	}
	for i := 0; i < len(hashes); i += 512 {
		j := i + 512
		if j > len(hashes) {
			j = len(hashes)
		}
		w.WriteString("H")
		for _, h := range hashes[i:j] {
			w.WriteString(" ")
			w.WriteString(strconv.FormatUint(h, 16))
		}
		w.WriteString("\n")
	}
	b, err := json.Marshal(agg)
	if err != nil {
		// never lose a batch over its illustration
		agg.Samples = nil
		agg.Harness = "worker aggregate not serialisable: " + err.Error()
		b, _ = json.Marshal(agg)
	}
	fmt.Fprintf(w, "A %s\n", b)
	return 0
}

// jsonSafe replaces what encoding/json refuses (NaN, +-Inf) by strings.
func jsonSafe(v interface{}) interface{} {
	switch x := v.(type) {
	case float64:
		if math.IsNaN(x) || math.IsInf(x, 0) {
			return fmt.Sprint(x)
		}
	case float32:
		return jsonSafe(float64(x))
	case []float64:
		r := make([]interface{}, len(x))
		for i := range x {
			r[i] = jsonSafe(x[i])
		}
		return r
	case [][]float64:
		r := make([]interface{}, len(x))
		for i := range x {
			r[i] = jsonSafe(x[i])
		}
		return r
	case []interface{}:
		r := make([]interface{}, len(x))
		for i := range x {
			r[i] = jsonSafe(x[i])
		}
		return r
	case map[string]interface{}:
		r := make(map[string]interface{}, len(x))
		for k, e := range x {
			r[k] = jsonSafe(e)
		}
		return r
	}
	return v
}

/* replay -------------------------------------------------------------------- */

func loadReplay(path string) (*ReplayFile, error) {
	b, err := os.ReadFile(path)
	if err != nil {
		return nil, err
	}
	rf := &ReplayFile{}
	if err := json.Unmarshal(b, rf); err != nil {
		return nil, err
	}
	return rf, nil
}

// exit 1: the recorded violation reproduces (same signature); 0: no
// violation; 3: a different violation; 2: trouble.
func cmdReplay(args []string) int {
	fs := flag.NewFlagSet("replay", flag.ExitOnError)
	file := fs.String("file", "", "")
	quiet := fs.Bool("quiet", false, "")
	fs.Parse(args)
	rf, err := loadReplay(*file)
	if err != nil {
		fmt.Fprintln(os.Stderr, "replay:", err)
		return 2
	}
	p := getProp(rf.Property)
	if rf.FromSeed {
		self, _ := os.Executable()
		st := &checkState{hashes: map[uint64]struct{}{}}
		stall := 5 * time.Duration(envInt("VERIF_STALL_S", p.stallDefault())) * time.Second
		r := runWorker(self, p, rf.Seed, batch{rf.Scenario, rf.RunIndex, rf.RunIndex + 1}, avoidSet(strings.Join(rf.Avoid, ",")), st, stall)
		if r.done && len(st.viols) == 0 {
			fmt.Println("REPLAY: the run completes without violation")
			return 0
		}
		if !r.done {
			class, msg := fatalClass(r, stall)
			sig := p.ID + "|process-fatal|" + rf.Scenario + "|" + class
			fmt.Printf("REPLAY: %s\n  %s\n", sig, msg)
			if !*quiet {
				fmt.Println(clip(r.stderr, 4000))
			}
			if rf.Violation != nil && sig != rf.Violation.Signature {
				// the run kills its process again, but in another way (the race
				// detector keeps a bounded access history and can miss the race
				// it reported before, after which the run dies of what the race
				// leads to): still the recorded violation -- the process does
				// not survive this run
				if a, b := strings.LastIndex(sig, "|"), strings.LastIndex(rf.Violation.Signature, "|"); a < 0 || b < 0 || sig[:a] != rf.Violation.Signature[:b] {
					return 3
				}
				fmt.Printf("  (recorded as %s)\n", rf.Violation.Signature)
			}
			fmt.Printf("VIOLATION property=%s replay=%s\n", rf.Property, *file)
			return 1
		}
		fmt.Println("REPLAY: the run no longer kills its process but reports", st.viols[0].Violation.Signature)
		return 3
	}
	if strings.HasPrefix(rf.Scenario, "probe:") {
		for _, pr := range p.Probes {
			if pr.ID == rf.Scenario[6:] {
				p = &Property{ID: p.ID, Run: pr.Run}
			}
		}
	}
	out := Execute(p, rf.Scenario, NewReplayTape(rf.Choices), true, avoidSet(strings.Join(rf.Avoid, ",")))
	if rf.Flaky && rf.Violation != nil {
		for k := 1; k < flakyAttempts && (out.Viol == nil || out.Viol.Signature != rf.Violation.Signature); k++ {
			out = Execute(p, rf.Scenario, NewReplayTape(rf.Choices), true, avoidSet(strings.Join(rf.Avoid, ",")))
		}
	}
	if !*quiet {
		for _, e := range out.Events {
			fmt.Println(e)
		}
	}
	if out.Harness != "" {
		fmt.Fprintln(os.Stderr, out.Harness)
		return 2
	}
	if out.Viol == nil {
		fmt.Println("REPLAY: no violation")
		return 0
	}
	fmt.Printf("REPLAY: %s\n  %s\n", out.Viol.Signature, out.Viol.Message)
	if rf.Violation != nil && out.Viol.Signature != rf.Violation.Signature {
		return 3
	}
	fmt.Printf("VIOLATION property=%s replay=%s\n", rf.Property, *file)
	return 1
}

/* one: debug a single run ---------------------------------------------------- */

func cmdOne(args []string) int {
	fs := flag.NewFlagSet("one", flag.ExitOnError)
	prop := fs.String("property", "", "")
	sc := fs.String("scenario", "", "")
	seed := fs.Uint64("seed", 0, "")
	run := fs.Int("run", 0, "")
	avoid := fs.String("avoid", "", "")
	fs.Parse(args)
	p := getProp(*prop)
	if *sc == "" {
		*sc = p.Scenarios[0].Name
	}
	out := Execute(p, *sc, NewSeedTape(runSeed(*seed, p.ID, *sc, *run)), true, avoidSet(*avoid))
	for _, e := range out.Events {
		fmt.Println(e)
	}
	fmt.Printf("loghash=%016x statehash=%016x steps=%d nontrivial=%v stats=%v\n", out.LogHash, out.StateH, out.Steps, out.Nontriv, out.Stats)
	if out.Harness != "" {
		fmt.Println(out.Harness)
		return 2
	}
	if out.Viol != nil {
		fmt.Println("violation:", out.Viol.Signature, out.Viol.Message)
		return 1
	}
	return 0
}

/* digest: determinism audit helper ------------------------------------------ */

func cmdDigest(args []string) int {
	fs := flag.NewFlagSet("digest", flag.ExitOnError)
	prop := fs.String("property", "", "")
	seed := fs.Uint64("seed", 0, "")
	runs := fs.Int("runs", 50, "")
	avoid := fs.String("avoid", "", "")
	fs.Parse(args)
	p := getProp(*prop)
	av := avoidSet(*avoid)
	for _, sc := range p.Scenarios {
		h := sha256.New()
		for i := 0; i < *runs; i++ {
			out := Execute(p, sc.Name, NewSeedTape(runSeed(*seed, p.ID, sc.Name, i)), false, av)
			sig := ""
			if out.Viol != nil {
				sig = out.Viol.Signature
			}
			fmt.Fprintf(h, "%d %016x %016x %d %s\n", i, out.LogHash, out.StateH, out.Used, sig)
		}
		fmt.Printf("%s %s %d %s\n", p.ID, sc.Name, *seed, hex.EncodeToString(h.Sum(nil))[:32])
	}
	return 0
}

/* probe: known-finding probes ------------------------------------------------ */

type probeResult struct {
	ID        string     `json:"id"`
	Violation *Violation `json:"violation"`
	Events    []string   `json:"events"`
	Harness   string     `json:"harness,omitempty"`
}

func cmdProbe(args []string) int {
	fs := flag.NewFlagSet("probe", flag.ExitOnError)
	prop := fs.String("property", "", "")
	only := fs.String("id", "", "")
	fs.Parse(args)
	p := getProp(*prop)
	for _, pr := range p.Probes {
		if *only != "" && pr.ID != *only {
			continue
		}
		fmt.Printf("S %s\n", pr.ID)
		pp := &Property{ID: p.ID, Run: pr.Run}
		out := Execute(pp, "probe:"+pr.ID, NewReplayTape(nil), true, nil)
		b, _ := json.Marshal(probeResult{ID: pr.ID, Violation: out.Viol, Events: out.Events, Harness: out.Harness})
		fmt.Printf("P %s\n", b)
	}
	return 0
}

/* check ---------------------------------------------------------------------- */

type batch struct {
	sc       string
	from, to int
}

type checkState struct {
	mu      sync.Mutex
	aggs    []workerAgg
	viols   []workerViolation
	hashes  map[uint64]struct{}
	harness []string
	stalls  []string
	execNs  int64
	// fatal counts process-fatal violations per signature; once a scenario
	// has killed its process twice in the same way the rest of its runs is
	// not executed (every further death costs two fresh processes and, for a
	// hang, minutes): the violation is established
	fatal     map[string]int
	abandoned map[string]int // scenario -> runs not executed
}

func repoHead() string {
	out, err := exec.Command("git", "-C", "/repo", "rev-parse", "HEAD").Output()
	if err != nil {
		return "unknown"
	}
	h := strings.TrimSpace(string(out))
	st, _ := exec.Command("git", "-C", "/repo", "status", "--porcelain").Output()
	if len(strings.TrimSpace(string(st))) > 0 {
		h += "+dirty"
	}
	return h
}

func envInt(name string, def int) int {
	if v := os.Getenv(name); v != "" {
		if n, err := strconv.Atoi(v); err == nil {
			return n
		}
	}
	return def
}

func cmdCheck(args []string) int {
	fs := flag.NewFlagSet("check", flag.ExitOnError)
	prop := fs.String("property", "", "")
	tier := fs.String("tier", "", "")
	workers := fs.Int("workers", 0, "")
	runsFlag := fs.Int("runs", 0, "")
	fs.Parse(args)
	p := getProp(*prop)
	start := time.Now()
	if *tier == "" {
		*tier = os.Getenv("VERIF_TIER")
	}
	if *tier != "thorough" {
		*tier = "quick"
	}
	var seed uint64 = 1
	if v := os.Getenv("VERIF_SEED"); v != "" {
		if n, err := strconv.ParseInt(v, 10, 64); err == nil {
			seed = uint64(n)
		} else if u, err := strconv.ParseUint(v, 10, 64); err == nil {
			seed = u
		}
	}
	if *workers == 0 {
		*workers = envInt("VERIF_WORKERS", 16)
	}
	total := p.QuickRuns
	if *tier == "thorough" {
		total = p.ThoroughRuns
	}
	if *runsFlag > 0 {
		total = *runsFlag
	}
	total = envInt("VERIF_RUNS", total)
	maxS := envInt("VERIF_MAX_S", 0)
	if maxS == 0 {
		if *tier == "thorough" {
			maxS = 1500
		} else {
			maxS = 150
		}
	}
	stallS := envInt("VERIF_STALL_S", p.stallDefault())
	self, _ := os.Executable()
	fmt.Printf("check property=%s tier=%s seed=%d runs=%d workers=%d engine=%s repo=%s\n", p.ID, *tier, seed, total, *workers, p.Engine, repoHead())

	findings, err := LoadFindings(filepath.Join(VerifDir(), "known_findings.jsonl"))
	if err != nil {
		fmt.Fprintln(os.Stderr, "cannot read known_findings.jsonl:", err)
		return 2
	}

	/* phase 0: probes of recorded findings */
	avoid := map[string]bool{}
	knownSeen := []string{}
	probeNotes := []string{}
	if len(p.Probes) > 0 {
		for _, pr := range p.Probes {
			f := findings.ByID(pr.ID)
			res, stalled, perr := runProbe(self, p.ID, pr.ID, time.Duration(stallS)*time.Second)
			if perr != nil {
				fmt.Fprintln(os.Stderr, "probe", pr.ID, "failed:", perr)
				return 2
			}
			sig := ""
			var pv *Violation
			var pev []string
			if stalled {
				sig = p.ID + "|hang|" + pr.ID
				pv = &Violation{Oracle: "hang", Signature: sig, Message: "probe " + pr.ID + " did not return within " + strconv.Itoa(stallS) + " s"}
			} else if res.Harness != "" {
				fmt.Fprintln(os.Stderr, "probe", pr.ID, "harness trouble:", res.Harness)
				return 2
			} else if res.Violation != nil {
				sig = res.Violation.Signature
				pv = res.Violation
				pev = res.Events
			}
			open := f != nil && f.Open()
			switch {
			case open && sig != "" && findings.Match(p.ID, sig) == f:
				fmt.Printf("KNOWN-FINDING: property=%s %s [%s]\n", p.ID, f.WhatFails, f.ID)
				knownSeen = append(knownSeen, f.ID)
				avoid[f.ID] = true
			case open && sig == "":
				n := fmt.Sprintf("finding %s (open) no longer reproduces; its avoidance predicate is dropped for this run", f.ID)
				fmt.Println("NOTE:", n)
				probeNotes = append(probeNotes, n)
			case sig != "":
				// a repaired (or never recorded) defect is present, or an open
				// one fails differently from what is recorded: violation
				note := "direct probe, no tape"
				if open {
					note += "; signature differs from the recorded finding"
				} else {
					note += "; this probe guards a defect that was repaired by a fix: commit (or never existed) and is back"
				}
				rp := writeReplay(p, &ReplayFile{Property: p.ID, Engine: p.Engine, Scenario: "probe:" + pr.ID, Seed: seed,
					Violation: pv, Events: pev, RepoHead: repoHead(), Note: note})
				fmt.Printf("  %s\n  %s\n", sig, pv.Message)
				fmt.Printf("VIOLATION property=%s replay=%s\n", p.ID, rp)
				writeEvidence(p, *tier, seed, start, nil, nil, 1, knownSeen, probeNotes, []string{sig}, 0)
				return 1
			}
		}
	}

	/* phase 1: seeded search */
	wsum := 0
	for _, s := range p.Scenarios {
		wsum += s.Weight
	}
	var batches []batch
	for _, s := range p.Scenarios {
		n := total * s.Weight / wsum
		if n < 1 {
			n = 1
		}
		bs := n / (*workers * 3)
		if bs < 1 {
			bs = 1
		}
		if bs > 4000 {
			bs = 4000
		}
		for a := 0; a < n; a += bs {
			b := a + bs
			if b > n {
				b = n
			}
			batches = append(batches, batch{s.Name, a, b})
		}
	}
	// interleave scenarios so that a wall-clock cap cuts all of them evenly
	sort.SliceStable(batches, func(i, j int) bool { return batches[i].from < batches[j].from })

	st := &checkState{hashes: map[uint64]struct{}{}}
	ch := make(chan batch)
	var wg sync.WaitGroup
	deadline := start.Add(time.Duration(maxS) * time.Second)
	skipped := 0
	for w := 0; w < *workers; w++ {
		wg.Add(1)
		go func() {
			defer wg.Done()
			for b := range ch {
				runBatch(self, p, seed, b, avoid, st, time.Duration(stallS)*time.Second)
			}
		}()
	}
	for _, b := range batches {
		if time.Now().After(deadline) {
			skipped += b.to - b.from
			continue
		}
		ch <- b
	}
	close(ch)
	wg.Wait()
	for sc, n := range st.abandoned {
		skipped += n
		fmt.Printf("  %d runs of scenario %s not executed: the scenario had already killed its process twice in the same way\n", n, sc)
	}

	if len(st.harness) > 0 {
		for _, h := range st.harness {
			fmt.Fprintln(os.Stderr, "HARNESS:", h)
		}
		return 2
	}

	/* phase 2: classify violations */
	bySig := map[string]workerViolation{}
	sigs := []string{}
	for _, v := range st.viols {
		s := v.Violation.Signature
		if old, ok := bySig[s]; !ok || len(v.Choices) < len(old.Choices) {
			if !ok {
				sigs = append(sigs, s)
			}
			bySig[s] = v
		}
	}
	sort.Strings(sigs)
	nviol := 0
	head := repoHead()
	for _, s := range sigs {
		v := bySig[s]
		// Violations found by the search are never suppressed: every open
		// finding is kept out of the search by its avoidance predicate (and
		// shown by its direct probe above), so whatever the search finds is
		// by construction something the findings file does not list.
		rf := &ReplayFile{Property: p.ID, Engine: p.Engine, Scenario: v.Scenario, Seed: seed, RunIndex: v.RunIndex,
			Choices: v.Choices, Violation: v.Violation, Events: v.Events, RepoHead: head, FromSeed: v.FromSeed, Stderr: v.Stderr, Flaky: v.Flaky, Attempts: v.Attempts}
		if v.Flaky {
			rf.Note = "the violation depends on the iteration order of a Go map inside the library, which no seed controls; replay repeats this choice list (at most " + strconv.Itoa(flakyAttempts) + " times) until it shows"
		}
		if v.FromSeed {
			rf.Note = "the run kills its process; it is re-created from (seed, scenario, run_index) and replayed in a child process; not minimised"
		}
		for k := range avoid {
			rf.Avoid = append(rf.Avoid, k)
		}
		sort.Strings(rf.Avoid)
		path := writeReplay(p, rf)
		// a violation must replay in a fresh process before it is reported
		cmd := exec.Command(self, "replay", "-file", path, "-quiet")
		cmd.Env = os.Environ()
		out, _ := cmd.CombinedOutput()
		if cmd.ProcessState == nil || cmd.ProcessState.ExitCode() != 1 {
			fmt.Fprintf(os.Stderr, "HARNESS: violation %s did not replay in a fresh process (exit %v):\n%s\n", s, cmd.ProcessState, out)
			return 2
		}
		nviol++
		if v.FromSeed {
			fmt.Printf("  %s\n  %s\n", s, v.Violation.Message)
		} else {
			fmt.Printf("  %s\n  %s\n  minimised to %d choices (from %d, %d shrink executions)\n", s, v.Violation.Message, len(v.Choices), v.OrigLen, v.ShrinkExec)
		}
		fmt.Printf("VIOLATION property=%s replay=%s\n", p.ID, path)
	}
	writeEvidence(p, *tier, seed, start, st, avoid, nviol, knownSeen, probeNotes, sigs, skipped)
	if nviol > 0 {
		return 1
	}
	fmt.Printf("OK property=%s: held on all %d runs\n", p.ID, totalRuns(st))
	return 0
}

func totalRuns(st *checkState) int {
	n := 0
	for _, a := range st.aggs {
		n += a.Runs
	}
	return n
}

func writeReplay(p *Property, rf *ReplayFile) string {
	dir := filepath.Join(VerifDir(), "replays", p.ID)
	os.MkdirAll(dir, 0o755)
	sum := sha256.Sum256([]byte(rf.Violation.Signature))
	path := filepath.Join(dir, hex.EncodeToString(sum[:6])+".json")
	b, _ := json.MarshalIndent(rf, "", " ")
	os.WriteFile(path, b, 0o644)
	return path
}

func runProbe(self, prop, id string, stall time.Duration) (*probeResult, bool, error) {
	cmd := exec.Command(self, "probe", "-property", prop, "-id", id)
	cmd.Env = os.Environ()
	var outb strings.Builder
	cmd.Stdout = &outb
	cmd.Stderr = os.Stderr
	if err := cmd.Start(); err != nil {
		return nil, false, err
	}
	done := make(chan error, 1)
	go func() { done <- cmd.Wait() }()
	select {
	case <-done:
	case <-time.After(stall):
		cmd.Process.Kill()
		<-done
		return nil, true, nil
	}
	for _, line := range strings.Split(outb.String(), "\n") {
		if strings.HasPrefix(line, "P ") {
			pr := &probeResult{}
			if err := json.Unmarshal([]byte(line[2:]), pr); err != nil {
				return nil, false, err
			}
			return pr, false, nil
		}
	}
	return nil, false, fmt.Errorf("probe %s produced no result (exit %v): %s", id, cmd.ProcessState, outb.String())
}

// runBatch runs one worker process over [from,to) and merges its output.  A
// worker that dies (fatal runtime error such as a stack overflow, race
// detector halt, out of memory) or stalls cannot report anything itself; the
// runs it was working on are then re-executed one per process to find the run
// that kills its process deterministically.
func runBatch(self string, p *Property, seed uint64, b batch, avoid map[string]bool, st *checkState, stall time.Duration) {
	from := b.from
	for from < b.to {
		st.mu.Lock()
		given := false
		for sig, n := range st.fatal {
			if n >= 2 && strings.HasPrefix(sig, p.ID+"|process-fatal|"+b.sc+"|") {
				given = true
			}
		}
		if given {
			if st.abandoned == nil {
				st.abandoned = map[string]int{}
			}
			st.abandoned[b.sc] += b.to - from
			st.mu.Unlock()
			return
		}
		st.mu.Unlock()
		r := runWorker(self, p, seed, batch{b.sc, from, b.to}, avoid, st, stall)
		if r.done {
			return
		}
		// isolate: candidates are the run announced last and (if markers are
		// sparse) the following ones
		start := r.last
		if start < from {
			start = from
		}
		culprit := -1
		var first workerResult
		// a single run gets five times the stall limit before it is called a
		// hang: the batch may simply have been slow on a loaded machine
		stall1 := stall
		if r.stalled {
			stall1 = 5 * stall
		}
		for i := start; i < b.to && i < start+66; i++ {
			one := runWorker(self, p, seed, batch{b.sc, i, i + 1}, avoid, st, stall1)
			if !one.done {
				culprit, first = i, one
				break
			}
		}
		if culprit < 0 {
			st.mu.Lock()
			st.harness = append(st.harness, fmt.Sprintf("worker for %s/%s [%d,%d) %s near run %d but no single run reproduces it\n%s", p.ID, b.sc, from, b.to, r.what(stall), r.last, clip(r.stderr, 3000)))
			st.mu.Unlock()
			return
		}
		// must kill its process again to count
		again := runWorker(self, p, seed, batch{b.sc, culprit, culprit + 1}, avoid, st, stall1)
		if again.done {
			st.mu.Lock()
			st.harness = append(st.harness, fmt.Sprintf("run %d of %s/%s killed its process once (%s) but not when repeated\n%s", culprit, p.ID, b.sc, first.what(stall), clip(first.stderr, 3000)))
			st.mu.Unlock()
			return
		}
		class, msg := fatalClass(first, stall1)
		v := &Violation{Oracle: "process-survives", Signature: p.ID + "|process-fatal|" + b.sc + "|" + class,
			Message: fmt.Sprintf("run %d of scenario %s kills its process (%s), reproduced in two fresh processes: %s", culprit, b.sc, first.what(stall), msg)}
		st.mu.Lock()
		st.viols = append(st.viols, workerViolation{Scenario: b.sc, RunIndex: culprit, RawSig: v.Signature, Violation: v, FromSeed: true, Stderr: clip(first.stderr, 6000)})
		if st.fatal == nil {
			st.fatal = map[string]int{}
		}
		st.fatal[v.Signature]++
		st.mu.Unlock()
		from = culprit + 1
	}
}

func clip(s string, n int) string {
	if len(s) > n {
		return s[:n] + "…"
	}
	return s
}

type workerResult struct {
	done    bool
	last    int
	stalled bool
	code    int
	stderr  string
}

func (r workerResult) what(stall time.Duration) string {
	if r.stalled {
		return "no output for " + stall.String()
	}
	return fmt.Sprintf("exit code %d", r.code)
}

// fatalClass gives a stable class and a one-line message for a dead worker.
func fatalClass(r workerResult, stall time.Duration) (string, string) {
	if r.stalled {
		return "hang", "no progress for " + stall.String()
	}
	if r.code == 66 && strings.Contains(r.stderr, "DATA RACE") {
		return "data-race", raceSummary(r.stderr)
	}
	for _, l := range strings.Split(r.stderr, "\n") {
		if strings.HasPrefix(l, "fatal error: ") {
			c := strings.TrimPrefix(l, "fatal error: ")
			return strings.ReplaceAll(c, " ", "-"), l
		}
		if strings.HasPrefix(l, "runtime: goroutine stack exceeds") {
			return "stack-overflow", l
		}
		if strings.HasPrefix(l, "panic: ") {
			return "uncaught-panic", l
		}
	}
	return fmt.Sprintf("exit-%d", r.code), clip(r.stderr, 200)
}

// raceSummary extracts the two access sites of the first race report.
func raceSummary(stderr string) string {
	lines := strings.Split(stderr, "\n")
	out := []string{}
	for i, l := range lines {
		if strings.HasPrefix(l, "Write at ") || strings.HasPrefix(l, "Read at ") || strings.HasPrefix(l, "Previous write at ") || strings.HasPrefix(l, "Previous read at ") {
			site := ""
			for j := i + 1; j < len(lines) && j < i+12; j++ {
				t := strings.TrimSpace(lines[j])
				if strings.HasPrefix(t, "github.com/pbenner/autodiff") {
					site = t
					break
				}
			}
			out = append(out, strings.Fields(l)[0]+" "+strings.TrimSuffix(strings.Fields(l)[1], ":")+" in "+site)
		}
		if len(out) == 2 {
			break
		}
	}
	return strings.Join(out, " / ")
}

func runWorker(self string, p *Property, seed uint64, b batch, avoid map[string]bool, st *checkState, stall time.Duration) workerResult {
	args := []string{"worker", "-property", p.ID, "-scenario", b.sc, "-seed", strconv.FormatUint(seed, 10),
		"-from", strconv.Itoa(b.from), "-to", strconv.Itoa(b.to), "-avoid", avoidList(avoid)}
	cmd := exec.Command(self, args...)
	cmd.Env = append(os.Environ(), p.childEnv()...)
	stdout, _ := cmd.StdoutPipe()
	var errb strings.Builder
	cmd.Stderr = &errb
	if err := cmd.Start(); err != nil {
		st.mu.Lock()
		st.harness = append(st.harness, "cannot start worker: "+err.Error())
		st.mu.Unlock()
		return workerResult{done: true}
	}
	lines := make(chan string, 256)
	go func() {
		sc := bufio.NewScanner(stdout)
		sc.Buffer(make([]byte, 1<<20), 1<<28)
		for sc.Scan() {
			lines <- sc.Text()
		}
		close(lines)
	}()
	res := workerResult{last: -1}
	// results of a worker only count once it delivered its aggregate
	var viols []workerViolation
	var hashes []uint64
	timer := time.NewTimer(stall)
loop:
	for {
		select {
		case l, ok := <-lines:
			if !ok {
				break loop
			}
			if !timer.Stop() {
				select {
				case <-timer.C:
				default:
				}
			}
			timer.Reset(stall)
			switch {
			case strings.HasPrefix(l, "S "):
				res.last, _ = strconv.Atoi(l[2:])
			case strings.HasPrefix(l, "V "):
				var wv workerViolation
				if err := json.Unmarshal([]byte(l[2:]), &wv); err == nil {
					viols = append(viols, wv)
				}
			case strings.HasPrefix(l, "H"):
				for _, f := range strings.Fields(l[1:]) {
					if h, err := strconv.ParseUint(f, 16, 64); err == nil {
						hashes = append(hashes, h)
					}
				}
			case strings.HasPrefix(l, "A "):
				var a workerAgg
				if err := json.Unmarshal([]byte(l[2:]), &a); err == nil {
					res.done = true
					st.mu.Lock()
					st.aggs = append(st.aggs, a)
					if a.Harness != "" {
						st.harness = append(st.harness, a.Harness)
					}
					st.mu.Unlock()
				}
			}
		case <-timer.C:
			res.stalled = true
			cmd.Process.Kill()
			break loop
		}
	}
	for range lines {
	}
	cmd.Wait()
	res.code = cmd.ProcessState.ExitCode()
	res.stderr = errb.String()
	st.mu.Lock()
	// violations found before a death are real and replayable on their own
	st.viols = append(st.viols, viols...)
	if res.done {
		for _, h := range hashes {
			st.hashes[h] = struct{}{}
		}
	}
	st.mu.Unlock()
	return res
}

func (p *Property) childEnv() []string {
	if p.Isolated {
		return []string{"GORACE=halt_on_error=1 exitcode=66 atexit_sleep_ms=0"}
	}
	return nil
}
