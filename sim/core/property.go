package core

import (
	"fmt"
	"runtime/debug"
	"strings"
)

// Scenario is one workload/fault configuration of a property's check.
// Fault-free and fault-injecting configurations are separate scenarios with
// separate counters.
type Scenario struct {
	Name   string
	Weight int  // share of the run budget
	Faulty bool // injects faults / misuse
}

// FindingProbe re-executes one recorded genuine defect directly (no tape).
// It returns the violation it observes, or nil if the defect is gone.
type FindingProbe struct {
	ID  string
	Run func(c *Ctx)
}

// Property describes one claimed property's check.
type Property struct {
	ID           string
	Level        string // exploration | fault_enumeration
	Engine       string
	Scenarios    []Scenario
	Run          func(c *Ctx) // executes one simulated run of c.Scenario from c.Tape
	Rule         string
	StepUnit     string // what Ctx.Steps counts (simulated time unit)
	Assumptions  []string
	RealCode     []string
	Stubs        []string
	Caps         map[string]int
	QuickRuns    int
	ThoroughRuns int
	Probes       []FindingProbe
	ShrinkBudget int
	// Isolated: violations kill the process (race detector); run/replay in
	// child processes and shrink from outside.
	Isolated bool
	// MarkEveryRun: print a start marker before every run (exact hang attribution)
	MarkEveryRun bool
	// StallS: seconds without a sign of life after which a worker counts as
	// stalled (0 = 120).  Engines whose runs take microseconds set it low, so
	// that a run that hangs inside the library is isolated in minutes.
	StallS int
}

var registry = map[string]*Property{}
var order []string

func Register(p *Property) {
	if _, dup := registry[p.ID]; dup {
		panic("duplicate property " + p.ID)
	}
	registry[p.ID] = p
	order = append(order, p.ID)
}

// Outcome is the result of one executed run.
type Outcome struct {
	Viol    *Violation
	Harness string // non-empty: the harness itself failed (exit 2)
	Choices []int
	Events  []string
	LogHash uint64
	StateH  uint64
	Stats   map[string]int
	Steps   int
	Nontriv bool
	Sample  interface{}
	Used    int
}

// Execute runs one simulated run and converts every way it can end into an
// Outcome.  A panic escaping the engine is attributed by its stack: inside
// autodiff it is a library panic on a model-valid operation (violation, the
// engine should normally have caught it closer to the call), inside verif it
// is harness trouble.
func Execute(p *Property, sc string, t *Tape, keep bool, avoid map[string]bool) (out Outcome) {
	c := newCtx(p.ID, sc, t, keep, avoid)
	defer func() {
		if r := recover(); r != nil {
			switch v := r.(type) {
			case abortRun:
			case TickBudget:
				if c.Viol == nil {
					c.Viol = &Violation{Oracle: "step-clock", Signature: p.ID + "|step-clock|" + v.Site + "|budget-exceeded",
						Message: fmt.Sprintf("loop site %s exceeded its budget after %d ticks", v.Site, v.Ticks)}
					c.Logf("VIOLATION %s", c.Viol.Signature)
				}
			default:
				site := PanicSite()
				st := string(debug.Stack())
				if strings.HasPrefix(site, "harness:") || site == "unknown" {
					out.Harness = fmt.Sprintf("harness panic: %v\n%s", r, st)
				} else if c.Viol == nil {
					c.Viol = &Violation{Oracle: "no-panic", Signature: p.ID + "|no-panic|" + site + "|" + PanicClass(r),
						Message: fmt.Sprintf("unexpected panic in %s: %v", site, r)}
					c.Logf("VIOLATION %s: %v", c.Viol.Signature, r)
				}
			}
		}
		out.Viol = c.Viol
		out.Choices = t.Rec
		out.Used = t.Used()
		out.Events = c.Events
		out.LogHash = c.logHash
		out.StateH = c.stateH
		out.Stats = c.Stats
		out.Steps = c.Steps
		out.Nontriv = c.Nontriv
		out.Sample = c.Sample
	}()
	p.Run(c)
	return
}
