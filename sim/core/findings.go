package core

import (
	"bufio"
	"encoding/json"
	"os"
	"strings"
)

// Finding is one record of /verif/known_findings.jsonl (committed, never
// written at run time).  A finding suppresses only violations whose signature
// equals one of its signatures, so a different violation of the same property
// is still reported.  Status "open" suppresses; "fixed: <commit>" suppresses
// nothing (and its probe turns a re-appearance into a violation).
type Finding struct {
	ID         string   `json:"id"`
	Property   string   `json:"property"`
	Signatures []string `json:"signatures"`
	WhatFails  string   `json:"what_fails"`
	Status     string   `json:"status"`
	Replay     string   `json:"minimal_replay,omitempty"`
	Avoidance  string   `json:"avoidance,omitempty"`
}

func (f *Finding) Open() bool { return f.Status == "open" }

type Findings struct{ list []*Finding }

func LoadFindings(path string) (*Findings, error) {
	fs := &Findings{}
	fh, err := os.Open(path)
	if err != nil {
		if os.IsNotExist(err) {
			return fs, nil
		}
		return nil, err
	}
	defer fh.Close()
	sc := bufio.NewScanner(fh)
	sc.Buffer(make([]byte, 1<<20), 1<<24)
	for sc.Scan() {
		line := strings.TrimSpace(sc.Text())
		if line == "" || strings.HasPrefix(line, "#") || strings.HasPrefix(line, "fixed:") {
			continue
		}
		f := &Finding{}
		if err := json.Unmarshal([]byte(line), f); err != nil {
			return nil, err
		}
		fs.list = append(fs.list, f)
	}
	return fs, sc.Err()
}

func (fs *Findings) ByID(id string) *Finding {
	for _, f := range fs.list {
		if f.ID == id {
			return f
		}
	}
	return nil
}

// Match returns the open finding that lists exactly this signature.
func (fs *Findings) Match(prop, sig string) *Finding {
	for _, f := range fs.list {
		if f.Property != prop || !f.Open() {
			continue
		}
		for _, s := range f.Signatures {
			if s == sig {
				return f
			}
		}
	}
	return nil
}
