/* Copyright (C) 2016 Philipp Benner
 *
 * This program is free software: you can redistribute it and/or modify
 * it under the terms of the GNU General Public License as published by
 * the Free Software Foundation, either version 3 of the License, or
 * (at your option) any later version.
 *
 * This program is distributed in the hope that it will be useful,
 * but WITHOUT ANY WARRANTY; without even the implied warranty of
 * MERCHANTABILITY or FITNESS FOR A PARTICULAR PURPOSE.  See the
 * GNU General Public License for more details.
 *
 * You should have received a copy of the GNU General Public License
 * along with this program.  If not, see <http://www.gnu.org/licenses/>.
 */

// Package threadpool is a fork of github.com/pbenner/threadpool
// (v0.0.0-20191122191339-0302c226b91e) for deterministic simulation.
//
// Kept verbatim: the public API, job groups, the error map, the job group
// counter and every mutex.  Replaced: the job channel, the scheduling of the
// worker goroutines and sync.WaitGroup.Wait -- everything the real pool leaves
// to the Go scheduler is decided by the scheduler in sched.go, i.e. by the
// harness' tape.  The harness swaps this module in with a `replace` directive,
// so all of autodiff compiles against it unmodified.
package threadpool

/* -------------------------------------------------------------------------- */

import (
	"runtime"
	"sync"
)

/* -------------------------------------------------------------------------- */

type job struct {
	f        func(ThreadPool, func() error) error
	jobGroup int
	// simulation: token carrying the send -> receive happens-before edge
	token *byte
	seq   int32
}

/* -------------------------------------------------------------------------- */

type waitGroup struct {
	mutex *sync.RWMutex
	cnt   int
	// simulation: counter seen by the scheduler, token for Done -> Wait
	simCnt int
	token  *byte
}

func newWaitGroup() *waitGroup {
	r := waitGroup{}
	r.mutex = new(sync.RWMutex)
	r.cnt = 0
	r.token = new(byte)
	return &r
}

func (obj *waitGroup) Value() int {
	obj.mutex.RLock()
	defer obj.mutex.RUnlock()
	return obj.cnt
}

func (obj *waitGroup) Add(i int) {
	obj.mutex.Lock()
	obj.cnt += i
	S.groupAdd(obj, i)
	obj.mutex.Unlock()
}

func (obj *waitGroup) Done() {
	obj.mutex.Lock()
	obj.cnt -= 1
	S.groupDone(obj)
	obj.mutex.Unlock()
}

func (obj *waitGroup) Wait() {
	S.waitZero(obj)
}

/* -------------------------------------------------------------------------- */

type threadPool struct {
	threads int
	bufsize int
	cntmtx  *sync.RWMutex
	cnt     int
	wgmmtx  *sync.RWMutex
	wgm     map[int]*waitGroup
	errmtx  *sync.RWMutex
	err     map[int]error
	// simulation: the buffered job channel
	queue    []job
	freeToks []*byte
	closed   bool
	started  bool
}

//go:norace
func (t *threadPool) freeSlot() {
	tok := new(byte)
	raceRelease(tok)
	t.freeToks = append(t.freeToks, tok)
}

//go:norace
func (t *threadPool) slotToken() *byte {
	if len(t.freeToks) == 0 {
		return nil
	}
	tok := t.freeToks[0]
	t.freeToks = t.freeToks[1:]
	return tok
}

/* -------------------------------------------------------------------------- */

// Each job belongs to a given job group. This allows the main
// thread to wait until all jobs in a group are done
func (t *threadPool) NewJobGroup() int {
	if t == nil {
		return 0
	}
	t.cntmtx.Lock()
	defer t.cntmtx.Unlock()
	for {
		// increment counter until no wait group is
		// found
		i := t.cnt
		t.cnt += 1
		t.wgmmtx.RLock()
		if _, ok := t.wgm[i]; !ok {
			t.wgmmtx.RUnlock()
			return i
		}
		t.wgmmtx.RUnlock()
	}
}

// Returns the number of threads including the main
// thread
func (t *threadPool) NumberOfThreads() int {
	if t == nil {
		return 1
	} else {
		return t.threads
	}
}

func (t *threadPool) Start() {
	if t == nil {
		return
	}
	if t.started && !t.closed {
		return
	}
	if S == nil {
		panic("simulated threadpool used outside a simulation (call SimReset first)")
	}
	t.started, t.closed = true, false
	s := S
	for i := 1; i < t.threads; i++ {
		tk := s.newTask(t, i)
		s.live.Add(1)
		go func(i int, tk *task) {
			defer s.live.Done()
			// a worker that has not been scheduled yet is not a receiver yet
			if v := park(tk); v != wakeRun {
				return
			}
			// start computing jobs
			t.worker(i, tk)
			// the channel was closed: this executor is gone
			s.finishTask(tk)
		}(i, tk)
	}
}

func (t *threadPool) Stop() {
	if t == nil {
		return
	}
	if !t.started || t.closed {
		return
	}
	t.closed = true
	S.closePool(t)
}

//go:norace
func (s *sched) closePool(p *threadPool) {
	for _, t := range s.tasks {
		if t.pool == p && t.state == sRecv {
			t.state = sRunnable // wakes up without a job: channel closed
		}
	}
}

func exitGoroutine() { runtime.Goexit() }

/* -------------------------------------------------------------------------- */

func (t *threadPool) setError(jobGroup int, err error) {
	t.errmtx.Lock()
	t.err[jobGroup] = err
	t.errmtx.Unlock()
}

func (t *threadPool) getError(jobGroup int) error {
	t.errmtx.RLock()
	defer t.errmtx.RUnlock()
	if err, ok := t.err[jobGroup]; ok {
		return err
	} else {
		return nil
	}
}

func (t *threadPool) clear(jobGroup int) {
	// clear error
	t.errmtx.Lock()
	delete(t.err, jobGroup)
	t.errmtx.Unlock()
	// clear wait group
	t.wgmmtx.Lock()
	delete(t.wgm, jobGroup)
	t.wgmmtx.Unlock()
}

func (t *threadPool) getWaitGroup(jobGroup int) *waitGroup {
	t.wgmmtx.RLock()
	if wg, ok := t.wgm[jobGroup]; ok {
		t.wgmmtx.RUnlock()
		return wg
	}
	t.wgmmtx.RUnlock()
	// add new wait group
	wg := newWaitGroup()
	t.wgmmtx.Lock()
	t.wgm[jobGroup] = wg
	t.wgmmtx.Unlock()
	return wg
}

func (t *threadPool) worker(i int, tk *task) {
	for {
		job, ok := S.recv(t, tk)
		if !ok {
			return
		}
		// when the body of a dequeued job starts is a scheduling decision
		S.yield()
		S.jobStart(job)
		getError := func() error {
			return t.getError(job.jobGroup)
		}
		if err := job.f(ThreadPool{t, i}, getError); err != nil {
			t.setError(job.jobGroup, err)
		}
		S.jobEnd(job)
		S.yield()
	}
}

/* -------------------------------------------------------------------------- */

type ThreadPool struct {
	*threadPool
	// main thread id
	threadId int
}

// Get the ID of the main thread
func (t ThreadPool) GetThreadId() int {
	if t.NumberOfThreads() == 1 {
		return 0
	}
	return t.threadId
}

/* -------------------------------------------------------------------------- */

// Wait until all jobs in [jobGroup] are done. The main thread is then used
// as a worker to process jobs
func (t ThreadPool) Wait(jobGroup int) error {
	if t.NumberOfThreads() == 1 {
		return nil
	}
	t.wgmmtx.RLock()
	if wg, ok := t.wgm[jobGroup]; !ok {
		t.wgmmtx.RUnlock()
		// wait group has not been created, nothing
		// to wait for
		return nil
	} else {
		t.wgmmtx.RUnlock()
		S.waitEnter(t.threadId)
		// act as a worker until all jobs of this jobGroup are done
	LOOP:
		for {
			S.yield()
			if wg.Value() == 0 {
				break LOOP
			}
			if job, ok := S.tryRecvLogged(t.threadPool); ok {
				S.yield()
				S.jobStart(job)
				getError := func() error {
					return t.getError(job.jobGroup)
				}
				if err := job.f(t, getError); err != nil {
					t.setError(job.jobGroup, err)
				}
				S.jobEnd(job)
			} else {
				// job channel is empty, wait for all jobs
				// to complete and exit loop
				wg.Wait()
				break LOOP
			}
		}
		S.waitReturn()
	}
	// get error message and return
	err := t.getError(jobGroup)
	t.clear(jobGroup)
	return err
}

//go:norace
func (s *sched) waitEnter(threadId int) {
	if s.cur.id != 0 {
		s.nestedWaits++
	}
	s.log(EvWaitEnter, threadId, 0)
}

//go:norace
func (s *sched) waitReturn() {
	s.log(EvWaitReturn, 0, 0)
}

//go:norace
func (s *sched) tryRecvLogged(p *threadPool) (job, bool) {
	jb, ok := s.tryRecv(p)
	if ok {
		s.log(EvWaitTakesJob, int(jb.seq), 0)
	}
	return jb, ok
}

/* simple job queuing
 * -------------------------------------------------------------------------- */

// Submit a single job to the queue. If the pool consists
// of only one thread then the job is processed immediately
func (t ThreadPool) AddJob(jobGroup int, f func(pool ThreadPool, erf func() error) error) error {
	if t.NumberOfThreads() == 1 {
		getError := func() error {
			return nil
		}
		if err := f(t, getError); err != nil {
			return err
		}
	} else {
		wg := t.getWaitGroup(jobGroup)
		wg.Add(1)

		g := func(pool ThreadPool, erf func() error) error {
			defer wg.Done()
			return f(pool, erf)
		}
		jb := S.newJob(g, jobGroup)
		if S.send(t.threadPool, jb) {
			// the send completed; who continues is the scheduler's decision
			S.yield()
		} else {
			// channel buffer is full, execute job here
			S.inline(jb)
			S.jobStart(jb)
			getError := func() error {
				return t.getError(jobGroup)
			}
			if err := g(t, getError); err != nil {
				t.setError(jobGroup, err)
			}
			S.jobEnd(jb)
			S.yield()
		}
	}
	return nil
}

//go:norace
func (s *sched) newJob(g func(ThreadPool, func() error) error, group int) job {
	jb := job{f: g, jobGroup: group, token: new(byte), seq: s.nextSeq()}
	// everything the submitter did so far happens before the job body
	raceRelease(jb.token)
	return jb
}

//go:norace
func (s *sched) inline(jb job) {
	s.inlineN++
	s.log(EvSubmitInline, int(jb.seq), 0)
}

// Submit a range job to the queue. The range [iFrom,ito) is split into
// chunks of equal size which are then queued independently
func (t ThreadPool) AddRangeJob(iFrom, iTo int, jobGroup int, f func(i int, pool ThreadPool, erf func() error) error) error {
	if iFrom >= iTo {
		return nil
	}
	m := t.NumberOfThreads()
	if m > iTo-iFrom {
		m = iTo - iFrom
	}
	n := (iTo - iFrom) / m
	for j := iFrom; j < iTo; j += n {
		iFrom_ := j
		iTo_ := j + n
		if iTo_ > iTo {
			iTo_ = iTo
		}
		if err := t.AddJob(jobGroup, func(pool ThreadPool, erf func() error) error {
			for i := iFrom_; i < iTo_; i++ {
				if err := f(i, pool, erf); err != nil {
					return err
				}
			}
			return nil
		}); err != nil {
			return err
		}
	}
	return nil
}

func (t ThreadPool) AddRangeJob_(iFrom, iTo int, jobGroup int, f func(ifrom, ito int, pool ThreadPool, erf func() error) error) error {
	if iFrom >= iTo {
		return nil
	}
	m := t.NumberOfThreads()
	if m > iTo-iFrom {
		m = iTo - iFrom
	}
	n := (iTo - iFrom) / m
	for j := iFrom; j < iTo; j += n {
		iFrom_ := j
		iTo_ := j + n
		if iTo_ > iTo {
			iTo_ = iTo
		}
		if err := t.AddJob(jobGroup, func(pool ThreadPool, erf func() error) error {
			if err := f(iFrom_, iTo_, pool, erf); err != nil {
				return err
			}
			return nil
		}); err != nil {
			return err
		}
	}
	return nil
}

/* single job queuing
 * -------------------------------------------------------------------------- */

// Submit a single job and wait until the job is done
func (t ThreadPool) Job(f func(pool ThreadPool, erf func() error) error) error {
	g := t.NewJobGroup()
	if err := t.AddJob(g, f); err != nil {
		return err
	}
	if err := t.Wait(g); err != nil {
		return err
	}
	return nil
}

// Submit a range job and wait until the job is done
func (t ThreadPool) RangeJob(iFrom, iTo int, f func(i int, pool ThreadPool, erf func() error) error) error {
	g := t.NewJobGroup()
	if err := t.AddRangeJob(iFrom, iTo, g, f); err != nil {
		return err
	}
	if err := t.Wait(g); err != nil {
		return err
	}
	return nil
}

func (t ThreadPool) RangeJob_(iFrom, iTo int, f func(ifrom, ito int, pool ThreadPool, erf func() error) error) error {
	g := t.NewJobGroup()
	if err := t.AddRangeJob_(iFrom, iTo, g, f); err != nil {
		return err
	}
	if err := t.Wait(g); err != nil {
		return err
	}
	return nil
}

/* -------------------------------------------------------------------------- */

func Nil() ThreadPool {
	return ThreadPool{}
}

func New(threads, bufsize int) ThreadPool {
	if threads < 1 {
		panic("invalid number of threads")
	}
	if bufsize < 1 {
		panic("invalid bufsize")
	}
	if threads == 1 {
		return ThreadPool{}
	}
	t := threadPool{}
	t.threads = threads
	t.bufsize = bufsize
	t.cntmtx = new(sync.RWMutex)
	t.cnt = 0
	t.wgmmtx = new(sync.RWMutex)
	t.wgm = make(map[int]*waitGroup)
	t.errmtx = new(sync.RWMutex)
	t.err = make(map[int]error)
	// create threads
	t.Start()
	return ThreadPool{&t, 0}
}
