//go:build race

package threadpool

import (
	"runtime"
	"unsafe"
)

// The baton hand-offs between executor goroutines are real channel
// operations, but they are an artefact of the simulator: the real pool has no
// such edges.  They are hidden from the race detector (RaceDisable hides
// synchronisation events of the calling goroutine), and the happens-before
// edges the Go memory model guarantees for the REAL pool (channel send ->
// receive, buffer slot reuse, WaitGroup Done -> Wait, goroutine creation) are
// declared explicitly through the functions below.

const RaceBuild = true

//go:norace
func raceDisable() { runtime.RaceDisable() }

//go:norace
func raceEnable() { runtime.RaceEnable() }

//go:norace
func raceAcquire(p *byte) { runtime.RaceAcquire(unsafe.Pointer(p)) }

//go:norace
func raceRelease(p *byte) { runtime.RaceRelease(unsafe.Pointer(p)) }

//go:norace
func raceReleaseMerge(p *byte) { runtime.RaceReleaseMerge(unsafe.Pointer(p)) }
