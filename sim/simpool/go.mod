module github.com/pbenner/threadpool

go 1.14
