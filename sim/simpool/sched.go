package threadpool

import (
	"sync"
)

/* The deterministic scheduler of the simulated thread pool.
 *
 * Executors (the caller's goroutine and the worker goroutines of every pool)
 * are real goroutines, but exactly one of them runs at any time: the others
 * are parked on a private channel.  At every scheduling point the running
 * executor asks the scheduler who continues; the scheduler asks the choice
 * function installed by the harness (the tape).  One tape = one exactly
 * repeatable interleaving at job granularity.
 *
 * Everything in this file touches simulator state from several goroutines
 * without synchronisation that the race detector could see (the baton
 * hand-offs are hidden on purpose), so every function is //go:norace and calls
 * nothing instrumented.
 */

// Policies bias the choice of the next executor (swarm testing).
const (
	PolicyUniform = iota
	PolicySpread  // give work to the executor that has run the fewest jobs
	PolicyHog     // one worker takes everything it can
	PolicyMainOnly // workers starve, the main thread executes the jobs itself
	PolicyStarve  // one worker is never chosen unless nothing else can run
	PolicyLifo    // highest executor id first
	NPolicies
)

// Config is installed by the harness before a run.
type Config struct {
	Choose  func(n int) int // the tape; must be //go:norace
	Policy  int
	Victim  int // executor id favoured (hog) or starved (starve)
	StepCap int
}

// Event kinds of the scheduler's log.
const (
	EvSubmitHandoff = iota + 1 // job handed to a parked worker
	EvSubmitQueued             // job put into the channel buffer
	EvSubmitInline             // buffer full: job runs on the submitter
	EvJobStart
	EvJobEnd
	EvWaitEnter
	EvWaitTakesJob
	EvWaitBlocks
	EvWaitReturn
	EvSwitch
	EvWorkerParks
	EvDeadlock
	EvStepCap
)

type Event struct {
	Kind int32
	Task int32
	A    int32
	B    int32
}

// Abort is the panic value that unwinds the main goroutine when the
// simulation cannot continue (deadlock, step cap).
type Abort struct {
	Deadlock bool
	StepCap  bool
}

const (
	sRunnable = iota
	sNotStarted
	sRecv // parked: waits for a job
	sWait // parked: waits for a job group to finish
	sDone
)

const (
	wakeRun = iota
	wakeExit
	wakePoison
)

type task struct {
	id     int
	wake   chan int
	state  int
	pool   *threadPool
	worker int
	waitOn *waitGroup
	hasJob bool
	jb     job
	jobs   int // jobs executed (for the spread policy)
}

type sched struct {
	cfg      Config
	tasks    []*task
	cur      *task
	steps    int
	events   []Event
	aborted  bool
	deadlock bool
	stepcap  bool
	jobSeq   int32
	hash     uint64
	live     sync.WaitGroup
	inlineN  int
	handoffN int
	queuedN  int
	nestedWaits int
	maxConc  int
}

// S is the running simulation.
var S *sched

// SimReset starts a new simulation; the calling goroutine becomes executor 0.
//
//go:norace
func SimReset(cfg Config) {
	if cfg.StepCap == 0 {
		cfg.StepCap = 20000
	}
	s := &sched{cfg: cfg, hash: 1469598103934665603}
	main := &task{id: 0, wake: make(chan int), state: sRunnable}
	s.tasks = append(s.tasks, main)
	s.cur = main
	s.events = make([]Event, 0, 1024)
	S = s
}

// Result of a finished simulation.
type Result struct {
	Events      []Event
	Steps       int
	Deadlock    bool
	StepCap     bool
	Hash        uint64
	Executors   int
	Inline      int
	Handoff     int
	Queued      int
	NestedWaits int
	JobsPerExecutor []int
}

// SimFinish ends the simulation: every parked executor is released and told
// to exit.  Must be called from the main goroutine.
//
//go:norace
func SimFinish() Result {
	s := S
	if s == nil {
		return Result{}
	}
	s.aborted = true
	for _, t := range s.tasks[1:] {
		if t.state != sDone {
			raceDisable()
			t.wake <- wakeExit
			raceEnable()
		}
	}
	raceDisable()
	s.live.Wait()
	raceEnable()
	r := Result{Events: s.events, Steps: s.steps, Deadlock: s.deadlock, StepCap: s.stepcap, Hash: s.hash, Executors: len(s.tasks),
		Inline: s.inlineN, Handoff: s.handoffN, Queued: s.queuedN, NestedWaits: s.nestedWaits}
	for _, t := range s.tasks {
		r.JobsPerExecutor = append(r.JobsPerExecutor, t.jobs)
	}
	S = nil
	return r
}

//go:norace
func (s *sched) log(kind int, a, b int) {
	if len(s.events) < 100000 {
		s.events = append(s.events, Event{int32(kind), int32(s.cur.id), int32(a), int32(b)})
	}
}

//go:norace
func (s *sched) mix(x uint64) {
	s.hash ^= x
	s.hash *= 1099511628211
}

// park blocks the calling goroutine until it is given the baton.
//
//go:norace
func park(t *task) int {
	raceDisable()
	v := <-t.wake
	raceEnable()
	return v
}

// switchTo hands the baton to next and parks the current executor.
//
//go:norace
func (s *sched) switchTo(next *task) {
	prev := s.cur
	if next == prev {
		return
	}
	s.cur = next
	raceDisable()
	next.wake <- wakeRun
	v := <-prev.wake
	raceEnable()
	s.resumed(prev, v)
}

//go:norace
func (s *sched) resumed(t *task, v int) {
	switch v {
	case wakePoison:
		panic(Abort{Deadlock: s.deadlock, StepCap: s.stepcap})
	case wakeExit:
		t.state = sDone
		exitGoroutine()
	}
}

//go:norace
func (s *sched) runnable() []*task {
	r := make([]*task, 0, len(s.tasks))
	for _, t := range s.tasks {
		if t.state == sRunnable || t.state == sNotStarted {
			r = append(r, t)
		}
	}
	return r
}

// pick chooses the next executor among the candidates according to the
// policy; every decision is a draw from the tape.
//
//go:norace
func (s *sched) pick(c []*task) *task {
	if len(c) == 1 {
		s.cfg.Choose(1)
		return c[0]
	}
	// one decision in eight ignores the policy
	if s.cfg.Policy != PolicyUniform && s.cfg.Choose(8) == 0 {
		return c[s.cfg.Choose(len(c))]
	}
	switch s.cfg.Policy {
	case PolicySpread:
		best := c[0]
		for _, t := range c {
			if t.jobs < best.jobs {
				best = t
			}
		}
		s.cfg.Choose(1)
		return best
	case PolicyHog:
		for _, t := range c {
			if t.id == s.cfg.Victim {
				s.cfg.Choose(1)
				return t
			}
		}
	case PolicyMainOnly:
		for _, t := range c {
			if t.id == 0 {
				s.cfg.Choose(1)
				return t
			}
		}
	case PolicyStarve:
		o := make([]*task, 0, len(c))
		for _, t := range c {
			if t.id != s.cfg.Victim {
				o = append(o, t)
			}
		}
		if len(o) > 0 {
			return o[s.cfg.Choose(len(o))]
		}
	case PolicyLifo:
		s.cfg.Choose(1)
		return c[len(c)-1]
	}
	return c[s.cfg.Choose(len(c))]
}

// yield is a scheduling point: the current executor stays runnable.
//
//go:norace
func (s *sched) yield() {
	if s.aborted {
		return
	}
	s.steps++
	if s.steps > s.cfg.StepCap {
		s.stepcap = true
		s.log(EvStepCap, s.steps, 0)
		s.fail()
		return
	}
	next := s.pick(s.runnable())
	if next != s.cur {
		s.log(EvSwitch, next.id, 0)
		if next.state == sNotStarted {
			next.state = sRunnable
		}
		s.switchTo(next)
	}
}

// block parks the current executor (its state was set by the caller) and
// runs somebody else; if nobody can run the system is deadlocked.
//
//go:norace
func (s *sched) block() {
	if s.aborted {
		return
	}
	s.steps++
	c := s.runnable()
	if len(c) == 0 {
		s.deadlock = true
		s.log(EvDeadlock, 0, 0)
		s.fail()
		return
	}
	next := s.pick(c)
	if next.state == sNotStarted {
		next.state = sRunnable
	}
	s.log(EvSwitch, next.id, 1)
	s.switchTo(next)
}

// fail aborts the simulation: the main goroutine is made to panic with Abort.
//
//go:norace
func (s *sched) fail() {
	s.aborted = true
	main := s.tasks[0]
	if s.cur == main {
		panic(Abort{Deadlock: s.deadlock, StepCap: s.stepcap})
	}
	// we are on a worker goroutine: wake the main goroutine poisoned and stay
	// parked until SimFinish releases us
	me := s.cur
	s.cur = main
	raceDisable()
	main.wake <- wakePoison
	v := <-me.wake
	raceEnable()
	s.resumed(me, v)
}

/* channel semantics ------------------------------------------------------------- */

// send implements `select { case ch <- job: default: }` on the pool's
// buffered job channel: direct hand-off to a parked receiver if there is one,
// else the buffer, else not delivered.
//
//go:norace
func (s *sched) send(p *threadPool, jb job) bool {
	if s.aborted {
		return false
	}
	recv := make([]*task, 0, 4)
	for _, t := range s.tasks {
		if t.state == sRecv && t.pool == p {
			recv = append(recv, t)
		}
	}
	if len(recv) > 0 {
		r := recv[s.cfg.Choose(len(recv))]
		r.jb, r.hasJob, r.state = jb, true, sRunnable
		s.handoffN++
		s.log(EvSubmitHandoff, int(jb.seq), r.id)
		return true
	}
	if len(p.queue) < p.bufsize {
		// the slot that is filled now was emptied by an earlier receive: the
		// k-th receive happens before the (k+C)-th send completes
		if tok := p.slotToken(); tok != nil {
			raceAcquire(tok)
		}
		p.queue = append(p.queue, jb)
		s.queuedN++
		s.log(EvSubmitQueued, int(jb.seq), len(p.queue))
		return true
	}
	return false
}

// tryRecv implements `select { case job := <-ch: default: }`.
//
//go:norace
func (s *sched) tryRecv(p *threadPool) (job, bool) {
	if s.aborted || len(p.queue) == 0 {
		return job{}, false
	}
	jb := p.queue[0]
	p.queue = p.queue[1:]
	p.freeSlot()
	raceAcquire(jb.token)
	return jb, true
}

// recv implements the blocking receive of a worker (`for job := range ch`).
//
//go:norace
func (s *sched) recv(p *threadPool, t *task) (job, bool) {
	if s.aborted {
		return job{}, false
	}
	if jb, ok := s.tryRecv(p); ok {
		return jb, true
	}
	if p.closed {
		return job{}, false
	}
	t.state = sRecv
	s.log(EvWorkerParks, 0, 0)
	s.block()
	if s.aborted || !t.hasJob {
		return job{}, false
	}
	jb := t.jb
	t.hasJob = false
	t.jb = job{}
	raceAcquire(jb.token)
	return jb, true
}

// waitZero blocks until the job group's counter is zero (sync.WaitGroup.Wait).
//
//go:norace
func (s *sched) waitZero(wg *waitGroup) {
	if s.aborted {
		return
	}
	if wg.simCnt > 0 {
		t := s.cur
		t.state = sWait
		t.waitOn = wg
		s.log(EvWaitBlocks, wg.simCnt, 0)
		s.block()
		t.waitOn = nil
	}
	raceAcquire(wg.token)
}

//go:norace
func (s *sched) groupAdd(wg *waitGroup, n int) {
	wg.simCnt += n
}

//go:norace
func (s *sched) groupDone(wg *waitGroup) {
	wg.simCnt--
	raceReleaseMerge(wg.token)
	if wg.simCnt == 0 && s != nil {
		for _, t := range s.tasks {
			if t.state == sWait && t.waitOn == wg {
				t.state = sRunnable
			}
		}
	}
}

//go:norace
func (s *sched) newTask(p *threadPool, worker int) *task {
	t := &task{id: len(s.tasks), wake: make(chan int), state: sNotStarted, pool: p, worker: worker}
	s.tasks = append(s.tasks, t)
	return t
}

//go:norace
func (s *sched) jobStart(jb job) {
	s.cur.jobs++
	s.log(EvJobStart, int(jb.seq), 0)
	s.mix(uint64(s.cur.id)<<32 | uint64(uint32(jb.seq)))
}

//go:norace
func (s *sched) jobEnd(jb job) {
	s.log(EvJobEnd, int(jb.seq), 0)
}

//go:norace
func (s *sched) nextSeq() int32 {
	s.jobSeq++
	return s.jobSeq
}

// finishTask: the current executor's goroutine ends (pool stopped); the baton
// goes to somebody else without parking.
//
//go:norace
func (s *sched) finishTask(t *task) {
	t.state = sDone
	if s.aborted {
		return
	}
	c := s.runnable()
	if len(c) == 0 {
		s.deadlock = true
		s.aborted = true
		main := s.tasks[0]
		s.cur = main
		raceDisable()
		main.wake <- wakePoison
		raceEnable()
		return
	}
	next := s.pick(c)
	if next.state == sNotStarted {
		next.state = sRunnable
	}
	s.cur = next
	raceDisable()
	next.wake <- wakeRun
	raceEnable()
}
