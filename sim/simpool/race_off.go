//go:build !race

package threadpool

const RaceBuild = false

func raceDisable()             {}
func raceEnable()              {}
func raceAcquire(p *byte)      {}
func raceRelease(p *byte)      {}
func raceReleaseMerge(p *byte) {}
