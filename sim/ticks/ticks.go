// Package ticks is the simulated clock of engine E.  The library has no wall
// clock; its time is loop iterations.  With -tags verif every iteration of a
// data dependent loop calls verifhook.Tick(site); this package counts the
// ticks per site and aborts the run (panic with core.TickBudget, recovered by
// the engine) when a site exceeds the budget the engine stated for it.
package ticks

import (
	"github.com/pbenner/autodiff/verifhook"
	"verif/sim/core"
)

var (
	counts  map[string]int
	budgets map[string]int
	deflt   int
	active  bool
	Total   int
)

func init() {
	verifhook.Hook = func(site string) {
		if !active {
			return
		}
		Total++
		counts[site]++
		b, ok := budgets[site]
		if !ok {
			b = deflt
		}
		if counts[site] > b {
			n := counts[site]
			active = false
			panic(core.TickBudget{Site: site, Ticks: n})
		}
	}
}

// Start arms the clock.  budgets maps loop sites to their budget; any other
// site gets def.
func Start(b map[string]int, def int) {
	counts = map[string]int{}
	budgets = b
	deflt = def
	active = true
}

// Stop disarms the clock and returns the ticks per site.
func Stop() map[string]int {
	active = false
	c := counts
	counts = nil
	return c
}

// Guard runs f under the clock and reports a budget overrun instead of
// propagating it.
func Guard(b map[string]int, def int, f func()) (over *core.TickBudget, counts map[string]int) {
	defer func() {
		counts = Stop()
		if r := recover(); r != nil {
			if tb, ok := r.(core.TickBudget); ok {
				over = &tb
				return
			}
			panic(r)
		}
	}()
	Start(b, def)
	f()
	return nil, nil
}
