package world

import (
	"fmt"
	"reflect"

	ad "github.com/pbenner/autodiff"
	"verif/sim/core"
)

/* operations on slices of dense vectors ------------------------------------------------------
 *
 * v.Slice(i,j) of a dense vector is a reference view: element k of the slice is
 * element i+k of the vector, writes go through, and nothing else of the vector
 * belongs to it.  One run: a root vector (drawn element type, real types with
 * derivatives), a chain of nested slices, and a seeded history of operations
 * with a slice as receiver or operand -- arithmetic (interface methods and the
 * concrete-type variants VADDV, ...), products, Set/Reset/Map/Swap/Permute/
 * Sort/ReverseOrder, appends, iteration, printing, JSON, conversions.  Oracles:
 *   (1) the same operation on an independent deep copy of the slice returns the
 *       same result and leaves the same contents;
 *   (2) afterwards the root holds the deep copy's contents at the positions the
 *       slice denotes and is unchanged everywhere else.
 */

type vsHandle struct {
	v   ad.Vector
	off int
	n   int
	raw bool // made by the caller's own v[a:b]: its capacity is the caller's business
}

func RunVectorSliceOps(c *core.Ctx) {
	t := c.Tape
	e := pickType(t)
	n := t.Range(2, 9)
	m := randVals(t, e, n)
	root := mkVector(e, false, m)
	if e.isReal() && t.Bool(1, 2) {
		if mv, ok := root.(ad.MagicVector); ok {
			mv.Variables(1)
		}
	}
	c.Logf("dense %s vector %s", e.name, fmtVals(m))
	fail := func(oracle, failure, format string, args ...interface{}) {
		c.Fail(oracle, "vector-slice|"+failure, format, args...)
	}
	hs := []vsHandle{}
	// a chain of nested slices
	cur := vsHandle{root, 0, n, false}
	depth := t.Range(1, 3)
	for d := 0; d < depth; d++ {
		a := t.Choose(cur.n + 1)
		b := a + t.Choose(cur.n-a+1)
		var s ad.Vector
		magic, raw := false, false
		if _, ok := cur.v.(ad.MagicVector); ok && t.Bool(1, 3) {
			magic = true
		} else if t.Bool(1, 4) {
			// the dense vector types are Go slices: v[a:b] written by the caller
			// is a view as well (with the capacity of the rest of v)
			raw = true
		}
		if pv, site := core.Try(func() {
			switch {
			case magic:
				s = cur.v.(ad.MagicVector).MagicSlice(a, b).(ad.Vector)
			case raw:
				s = reflect.ValueOf(cur.v).Slice(a, b).Interface().(ad.Vector)
			default:
				s = cur.v.Slice(a, b)
			}
		}); pv != nil {
			fail("no-panic", "Slice|panic|"+core.PanicClass(pv), "Slice(%d,%d) of a dense %s vector of dimension %d panicked in %s: %v", a, b, e.name, cur.n, site, pv)
		}
		if s.Dim() != b-a {
			fail("addressing", "Slice|wrong-dimension", "Slice(%d,%d) has dimension %d", a, b, s.Dim())
		}
		cur = vsHandle{s, cur.off + a, b - a, raw}
		hs = append(hs, cur)
		c.Logf("slice %d = [%d,%d) of the root", d, cur.off, cur.off+cur.n)
	}
	deepCopy := func(h vsHandle) ad.Vector {
		cp := ad.NullDenseVector(e.t, h.n)
		for i := 0; i < h.n; i++ {
			cp.At(i).Set(h.v.ConstAt(i))
		}
		return cp
	}
	viewOps := 0
	nops := t.Range(2, 10)
	for k := 0; k < nops; k++ {
		c.Steps++
		h := hs[t.Choose(len(hs))]
		sa, sb := t.Bool(1, 3), t.Bool(1, 3)
		am, bm := randVals(t, e, h.n), randVals(t, e, h.n)
		x := val(t, e)
		q := t.Range(1, 3)
		mm := randVals(t, e, h.n*q)
		xm := randVals(t, e, q)
		pi := randPerm(t, h.n)
		i1, i2 := 0, 0
		if h.n > 0 {
			i1, i2 = t.Choose(h.n), t.Choose(h.n)
		}
		rev := t.Bool(1, 2)
		typed := func(v ad.Vector, upper string, iface func(), args ...interface{}) {
			if !typedCall(v, upper, args...) {
				iface()
			}
		}
		type op struct {
			name     string
			ok       bool
			mutating bool
			f        func(v ad.Vector) obs
		}
		ops := []op{
			{"VaddV", true, true, func(v ad.Vector) obs { v.VaddV(mkVector(e, sa, am), mkVector(e, sb, bm)); return obs{} }},
			{"VsubV", true, true, func(v ad.Vector) obs { v.VsubV(mkVector(e, sa, am), mkVector(e, sb, bm)); return obs{} }},
			{"VmulV", true, true, func(v ad.Vector) obs { v.VmulV(mkVector(e, sa, am), mkVector(e, sb, bm)); return obs{} }},
			{"VdivV", true, true, func(v ad.Vector) obs {
				v.VdivV(mkVector(e, sa, am), mkVector(e, false, nonzero(bm)))
				return obs{}
			}},
			{"VaddS", true, true, func(v ad.Vector) obs { v.VaddS(mkVector(e, sa, am), ad.NewScalar(e.t, x)); return obs{} }},
			{"VsubS", true, true, func(v ad.Vector) obs { v.VsubS(mkVector(e, sa, am), ad.NewScalar(e.t, x)); return obs{} }},
			{"VmulS", true, true, func(v ad.Vector) obs { v.VmulS(mkVector(e, sa, am), ad.NewScalar(e.t, x)); return obs{} }},
			{"VdivS", true, true, func(v ad.Vector) obs {
				v.VdivS(mkVector(e, sa, am), ad.NewScalar(e.t, nonzero([]float64{x})[0]))
				return obs{}
			}},
			{"VADDV", true, true, func(v ad.Vector) obs {
				a, b := mkVector(e, false, am), mkVector(e, false, bm)
				typed(v, "VADDV", func() { v.VaddV(a, b) }, a, b)
				return obs{}
			}},
			{"VSUBV", true, true, func(v ad.Vector) obs {
				a, b := mkVector(e, false, am), mkVector(e, false, bm)
				typed(v, "VSUBV", func() { v.VsubV(a, b) }, a, b)
				return obs{}
			}},
			{"VMULV", true, true, func(v ad.Vector) obs {
				a, b := mkVector(e, false, am), mkVector(e, false, bm)
				typed(v, "VMULV", func() { v.VmulV(a, b) }, a, b)
				return obs{}
			}},
			{"VDIVV", true, true, func(v ad.Vector) obs {
				a, b := mkVector(e, false, am), mkVector(e, false, nonzero(bm))
				typed(v, "VDIVV", func() { v.VdivV(a, b) }, a, b)
				return obs{}
			}},
			{"VADDS", true, true, func(v ad.Vector) obs {
				a, s := mkVector(e, false, am), ad.NewScalar(e.t, x)
				typed(v, "VADDS", func() { v.VaddS(a, s) }, a, s)
				return obs{}
			}},
			{"VSUBS", true, true, func(v ad.Vector) obs {
				a, s := mkVector(e, false, am), ad.NewScalar(e.t, x)
				typed(v, "VSUBS", func() { v.VsubS(a, s) }, a, s)
				return obs{}
			}},
			{"VMULS", true, true, func(v ad.Vector) obs {
				a, s := mkVector(e, false, am), ad.NewScalar(e.t, x)
				typed(v, "VMULS", func() { v.VmulS(a, s) }, a, s)
				return obs{}
			}},
			{"VDIVS", true, true, func(v ad.Vector) obs {
				a, s := mkVector(e, false, am), ad.NewScalar(e.t, nonzero([]float64{x})[0])
				typed(v, "VDIVS", func() { v.VdivS(a, s) }, a, s)
				return obs{}
			}},
			{"MdotV", h.n > 0, true, func(v ad.Vector) obs {
				v.MdotV(mkMatrix(e, sa, h.n, q, mm), mkVector(e, sb, xm))
				return obs{}
			}},
			{"VdotM", h.n > 0, true, func(v ad.Vector) obs {
				v.VdotM(mkVector(e, sb, xm), mkMatrix(e, sa, q, h.n, mm))
				return obs{}
			}},
			{"MDOTV", h.n > 0, true, func(v ad.Vector) obs {
				M, y := mkMatrix(e, false, h.n, q, mm), mkVector(e, false, xm)
				typed(v, "MDOTV", func() { v.MdotV(M, y) }, M, y)
				return obs{}
			}},
			{"VDOTM", h.n > 0, true, func(v ad.Vector) obs {
				M, y := mkMatrix(e, false, q, h.n, mm), mkVector(e, false, xm)
				typed(v, "VDOTM", func() { v.VdotM(y, M) }, y, M)
				return obs{}
			}},
			{"Set", true, true, func(v ad.Vector) obs { v.Set(mkVector(e, sa, am)); return obs{} }},
			{"Reset", true, true, func(v ad.Vector) obs { v.Reset(); return obs{} }},
			{"ResetDerivatives", true, true, func(v ad.Vector) obs {
				if mv, ok := v.(ad.MagicVector); ok {
					mv.ResetDerivatives()
				}
				return obs{}
			}},
			{"Variables", true, true, func(v ad.Vector) obs {
				if mv, ok := v.(ad.MagicVector); ok {
					return obs{err: mv.Variables(1) != nil}
				}
				return obs{}
			}},
			{"Map", true, true, func(v ad.Vector) obs { v.Map(func(s ad.Scalar) { s.SetFloat64(s.GetFloat64() + 1) }); return obs{} }},
			{"MapSet", true, true, func(v ad.Vector) obs {
				v.MapSet(func(s ad.ConstScalar) ad.Scalar { return ad.NewScalar(e.t, e.norm(2*s.GetFloat64())) })
				return obs{}
			}},
			{"At.Set", h.n > 0, true, func(v ad.Vector) obs { v.At(i1).SetFloat64(x); return obs{} }},
			{"Swap", h.n > 0, true, func(v ad.Vector) obs { v.Swap(i1, i2); return obs{} }},
			{"Permute", true, true, func(v ad.Vector) obs { return obs{err: v.Permute(pi) != nil} }},
			{"ReverseOrder", true, true, func(v ad.Vector) obs { v.ReverseOrder(); return obs{} }},
			{"Sort", true, true, func(v ad.Vector) obs { v.Sort(rev); return obs{} }},
			{"Iterator-write", true, true, func(v ad.Vector) obs {
				ob := obs{kind: "Iterator-write"}
				for it := v.Iterator(); it.Ok(); it.Next() {
					ob.cells = append(ob.cells, cellObs{v: float64(it.Index())})
					it.Get().SetFloat64(e.norm(float64(2*it.Index() + 1)))
				}
				return ob
			}},
			// appends return a longer vector; the slice and everything outside of
			// it stay as they are
			{"AppendScalar", !h.raw, true, func(v ad.Vector) obs {
				return obsVector("AppendScalar", v.AppendScalar(ad.NewScalar(e.t, x), ad.NewScalar(e.t, e.norm(x+1))))
			}},
			{"AppendVector", !h.raw, true, func(v ad.Vector) obs {
				return obsVector("AppendVector", v.AppendVector(mkVector(e, sa, xm)))
			}},
			// reading
			{"ConstIterator", true, false, func(v ad.Vector) obs {
				ob := obs{kind: "iter"}
				for it := v.ConstIterator(); it.Ok(); it.Next() {
					ob.cells = append(ob.cells, cellObs{v: float64(it.Index())}, readCell(it.GetConst()))
				}
				return ob
			}},
			{"IteratorFrom", h.n > 0, false, func(v ad.Vector) obs {
				ob := obs{kind: "iterfrom-mutable"}
				for it := v.IteratorFrom(i1); it.Ok(); it.Next() {
					ob.cells = append(ob.cells, cellObs{v: float64(it.Index())}, readCell(it.Get()))
				}
				return ob
			}},
			{"MagicIterator", h.n > 0, false, func(v ad.Vector) obs {
				ob := obs{kind: "magic-iter"}
				mv, ok := v.(ad.MagicVector)
				if !ok {
					return ob
				}
				for it := mv.MagicIteratorFrom(i1); it.Ok(); it.Next() {
					ob.cells = append(ob.cells, cellObs{v: float64(it.Index())}, readCell(it.GetMagic()))
				}
				for it := mv.MagicIterator(); it.Ok(); it.Next() {
					ob.cells = append(ob.cells, cellObs{v: float64(it.Index())}, readCell(it.GetConst()))
				}
				ob.cells = append(ob.cells, readCell(mv.MagicAt(i1)))
				return ob
			}},
			{"typed-At", h.n > 0, false, func(v ad.Vector) obs {
				return obs{kind: "typed-At", str: fmt.Sprint(v.Int8At(i1), v.Int16At(i1), v.Int32At(i1), v.Int64At(i1), v.IntAt(i1), v.Float32At(i1), v.Float64At(i1))}
			}},
			{"ConstIteratorFrom", h.n > 0, false, func(v ad.Vector) obs {
				ob := obs{kind: "iterfrom"}
				for it := v.ConstIteratorFrom(i1); it.Ok(); it.Next() {
					ob.cells = append(ob.cells, cellObs{v: float64(it.Index())}, readCell(it.GetConst()))
				}
				return ob
			}},
			{"JointIterator", true, false, func(v ad.Vector) obs {
				ob := obs{kind: "joint"}
				b := mkVector(e, sb, bm)
				for it := v.JointIterator(b); it.Ok(); it.Next() {
					s1, s2 := it.GetConst()
					c1, c2 := cellObs{}, cellObs{}
					if s1 != nil {
						c1 = readCell(s1)
					}
					if s2 != nil {
						c2 = readCell(s2)
					}
					ob.cells = append(ob.cells, cellObs{v: float64(it.Index())}, c1, c2)
				}
				return ob
			}},
			{"Reduce", true, false, func(v ad.Vector) obs {
				s := v.Reduce(func(r ad.Scalar, y ad.ConstScalar) ad.Scalar { r.SetFloat64(r.GetFloat64() + y.GetFloat64()); return r }, ad.NewScalar(ad.Float64Type, 0))
				return obs{kind: "Reduce", cells: []cellObs{{v: s.GetFloat64()}}}
			}},
			{"String", true, false, func(v ad.Vector) obs { return obs{kind: "String", str: fmt.Sprint(v)} }},
			{"Table", true, false, func(v ad.Vector) obs { return obs{kind: "Table", str: v.Table()} }},
			{"CloneVector", true, false, func(v ad.Vector) obs { return obsVector("Clone", v.CloneVector()) }},
			{"Equals", true, false, func(v ad.Vector) obs {
				vals := make([]float64, v.Dim())
				for i := range vals {
					vals[i] = v.Float64At(i)
				}
				same := mkVector(e, sa, vals)
				r := obs{kind: "Equals", err: !v.Equals(same, 1e-12)}
				if len(vals) > 0 {
					vals[i1] += 1
					r.str = fmt.Sprint(v.Equals(mkVector(e, sa, vals), 1e-12))
				}
				return r
			}},
			{"EQUALS", true, false, func(v ad.Vector) obs {
				vals := make([]float64, v.Dim())
				for i := range vals {
					vals[i] = v.Float64At(i)
				}
				same := mkVector(e, false, vals)
				m := reflectBool(v, "EQUALS", same, 1e-12)
				return obs{kind: "EQUALS", str: m}
			}},
			{"JSON", true, false, func(v ad.Vector) obs {
				b, err := v.MarshalJSON()
				if err != nil {
					return obs{kind: "json", err: true}
				}
				r := ad.NullDenseVector(e.t, 0)
				if err := r.(interface{ UnmarshalJSON([]byte) error }).UnmarshalJSON(b); err != nil {
					return obs{kind: "json", err: true, str: err.Error()}
				}
				return obsVector("json", r)
			}},
			{"AsMatrix", h.n > 0, false, func(v ad.Vector) obs { return obsMatrix("AsMatrix", v.AsMatrix(1, v.Dim())) }},
			{"AsConstMatrix", h.n > 0, false, func(v ad.Vector) obs { return obsMatrix("AsConstMatrix", v.AsConstMatrix(v.Dim(), 1)) }},
			{"operand-of-VsubV", true, false, func(v ad.Vector) obs {
				r := mkVector(e, sb, bm)
				r.VsubV(mkVector(e, sa, am), v)
				return obsVector("VsubV(a,slice)", r)
			}},
			{"operand-of-VMULV", true, false, func(v ad.Vector) obs {
				r, a := mkVector(e, false, bm), mkVector(e, false, am)
				typed(r, "VMULV", func() { r.VmulV(v, a) }, v, a)
				return obsVector("VMULV(slice,a)", r)
			}},
			{"operand-of-MdotV", h.n > 0, false, func(v ad.Vector) obs {
				r := ad.NullDenseVector(e.t, q)
				r.MdotV(mkMatrix(e, sa, q, h.n, mm), v)
				return obsVector("MdotV(M,slice)", r)
			}},
			{"operand-of-VDOTM", h.n > 0, false, func(v ad.Vector) obs {
				r, M := ad.NullDenseVector(e.t, q), mkMatrix(e, false, h.n, q, mm)
				typed(r, "VDOTM", func() { r.VdotM(v, M) }, v, M)
				return obsVector("VDOTM(slice,M)", r)
			}},
			{"operand-of-Outer", h.n > 0, false, func(v ad.Vector) obs {
				r := ad.NullDenseMatrix(e.t, h.n, q)
				r.Outer(v, mkVector(e, sb, xm))
				return obsMatrix("Outer(slice,b)", r)
			}},
		}
		cands := []op{}
		for _, o := range ops {
			if o.ok {
				cands = append(cands, o)
			}
		}
		o := cands[t.Choose(len(cands))]
		c.Logf("slice[%d,%d).%s  a=%s(%v) b=%s(%v) x=%g M=%s y=%s pi=%v idx=(%d,%d)", h.off, h.off+h.n, o.name, fmtVals(am), sa, fmtVals(bm), sb, x, fmtVals(mm), fmtVals(xm), pi, i1, i2)
		cp := deepCopy(h)
		rootBefore := obsVector("", root)
		var oc, ov obs
		if pv, _ := core.Try(func() { oc = o.f(cp) }); pv != nil {
			oc = obs{pan: fmt.Sprint(pv)}
		}
		after := obsVector("", cp)
		if pv, site := core.Try(func() { ov = o.f(h.v) }); pv != nil {
			ov = obs{pan: fmt.Sprintf("%v in %s", pv, site)}
		}
		viewOps++
		c.Count("slice-op:" + o.name)
		if oc.pan != "" && ov.pan != "" {
			c.Count("both-panicked:" + o.name)
			continue
		}
		if !oc.equal(ov) {
			fail("view-vs-deep-copy", o.name+"|result-differs", "%s on the slice [%d,%d) of a dense %s vector returned %s, the same operation on a deep copy returned %s", o.name, h.off, h.off+h.n, e.name, ov, oc)
		}
		rootAfter := obsVector("", root)
		for i := 0; i < n; i++ {
			want := rootBefore.cells[i]
			where := "outside the slice (must be unchanged)"
			if i >= h.off && i < h.off+h.n {
				want = after.cells[i-h.off]
				where = "inside the slice (must hold what the deep copy holds)"
			}
			if !rootAfter.cells[i].equal(want) {
				fail("addressing", o.name+"|root-element-wrong", "after %s on the slice [%d,%d) of a dense %s vector: root element %d = %s, expected %s -- %s; root before: %v", o.name, h.off, h.off+h.n, e.name, i, rootAfter.cells[i], want, where, rootBefore.cells)
			}
		}
		// every other slice still denotes its part of the root
		for _, g := range hs {
			if g.v.Dim() != g.n {
				fail("addressing", o.name+"|slice-dimension-changed", "after %s the slice [%d,%d) has dimension %d", o.name, g.off, g.off+g.n, g.v.Dim())
			}
			for i := 0; i < g.n; i++ {
				if got := readCell(g.v.ConstAt(i)); !got.equal(rootAfter.cells[g.off+i]) {
					fail("addressing", o.name+"|slice-element-wrong", "after %s: element %d of the slice [%d,%d) = %s, the root holds %s at %d", o.name, i, g.off, g.off+g.n, got, rootAfter.cells[g.off+i], g.off+i)
				}
			}
		}
	}
	c.Nontriv = viewOps >= 2
	c.StateStr(fmt.Sprint(e.name, n, len(hs), hs[len(hs)-1].off, hs[len(hs)-1].n))
	c.Sample = map[string]interface{}{"element_type": e.name, "dim": n, "slices": len(hs), "ops": nops}
}
