package world

import (
	"math"
	"fmt"

	ad "github.com/pbenner/autodiff"
	"verif/sim/core"
)

/* C11, sparse vector histories -------------------------------------------------
 *
 * One sparse vector (element type drawn per run), a dense []float64 model of
 * the same history, up to three live iterators and read-only slice handles.
 */

type roVecIter interface {
	Ok() bool
	Next()
	Index() int
	GetConst() ad.ConstScalar
}

type svIter struct {
	zombie bool  // the container was rebuilt (Sort, Permute, ReverseOrder, Append): nothing is demanded of the iterator any more
	kind  string // "iter" | "const" | "from"
	it    roVecIter
	wit   ad.VectorIterator // nil for const iterators
	pos   int               // index it is positioned on
	alive bool
}

type svSlice struct {
	v      ad.ConstVector
	lo, hi int
}

type svWorld struct {
	c      *core.Ctx
	e      elemType
	v      ad.Vector
	m      []float64
	iters  []*svIter
	slices []*svSlice
	last   string // kind of the last mutating operation
	muts   int
	created int
}

func (w *svWorld) fail(oracle, failure, format string, args ...interface{}) {
	w.c.Logf("last mutating operation: %s", w.last)
	w.c.Fail(oracle, "SparseVector|"+failure, format, args...)
}

// guard runs a model-valid library call; a panic is a violation.
func (w *svWorld) guard(op string, f func()) {
	if pv, site := core.Try(f); pv != nil {
		w.fail("no-panic", "panic-in:"+op+"|"+core.PanicClass(pv), "%s panicked in %s: %v  (model %s)", op, site, pv, fmtVals(w.m))
	}
}

func RunSparseVector(c *core.Ctx) {
	t := c.Tape
	w := &svWorld{c: c, e: pickType(t), last: "init"}
	n := t.Pick([]int{1, 1, 2, 3, 3, 3, 3, 2, 2, 1, 1, 1, 1}) // 0..12
	w.v = ad.NullSparseVector(w.e.t, n)
	w.m = make([]float64, n)
	c.Logf("v = NullSparseVector(%s, %d)", w.e.name, n)
	nops := t.Range(3, 50)
	for i := 0; i < nops; i++ {
		c.Steps++
		w.step()
		w.pointCheck()
	}
	w.sweep("final")
	w.pointCheck()
	c.Nontriv = w.muts >= 4 && len(w.m) >= 2
	c.Sample = map[string]interface{}{"element_type": w.e.name, "dim": len(w.m), "ops": nops, "mutations": w.muts}
}

func (w *svWorld) idx() int { return w.c.Tape.Choose(len(w.m)) }

func (w *svWorld) rebuilt() {
	for _, it := range w.iters {
		it.zombie = true
	}
}

func (w *svWorld) mutated(kind string) {
	w.last = kind
	w.muts++
	// slices share scalars with the state at their creation only
	w.slices = nil
}

func (w *svWorld) present(i int) string {
	if w.m[i] != 0 {
		return "nonzero"
	}
	return "zero"
}

func (w *svWorld) operand(n int) (ad.Vector, []float64, string) {
	t := w.c.Tape
	m := randVals(t, w.e, n)
	sparse := t.Bool(1, 2)
	return mkVector(w.e, sparse, m), m, storageName(sparse)
}

func (w *svWorld) step() {
	t := w.c.Tape
	c := w.c
	n := len(w.m)
	avoidSwap := c.Avoid["C11-F1"]
	op := t.Pick([]int{12, 6, 4, 2, 6, 3, 3, 3, 4, 3, 8, 3, 3, 8, 3, 3, 2, 2})
	if n == 0 && op != 4 && op != 9 && op != 10 && op != 13 {
		op = 9 // only Append makes sense on an empty vector
	}
	switch op {
	case 0: // element write, explicit zeros included
		i, x := w.idx(), val(t, w.e)
		how := t.Choose(3)
		c.Logf("v.At(%d) <- %g (how=%d)", i, x, how)
		w.guard("At.Set", func() {
			switch how {
			case 0:
				w.v.At(i).SetFloat64(x)
			case 1:
				w.v.At(i).Set(ad.NewScalar(w.e.t, x))
			default:
				w.v.At(i).Set(ad.ConstFloat64(x))
			}
		})
		w.m[i] = x
		w.mutated("At.Set(" + map[bool]string{true: "zero", false: "nonzero"}[x == 0] + ")")
	case 1: // read-for-write that never writes: creates a placeholder entry
		i := w.idx()
		c.Logf("_ = v.At(%d)", i)
		w.guard("At", func() { _ = w.v.At(i) })
		if w.m[i] == 0 {
			c.Count("probe:placeholder-entry-created-by-At")
		}
		w.mutated("At(read-for-write)")
	case 2: // Set(operand)
		o, om, st := w.operand(n)
		c.Logf("v.Set(%s %s)", st, fmtVals(om))
		w.guard("Set", func() { w.v.Set(o) })
		copy(w.m, om)
		w.mutated("Set(" + st + ")")
	case 3:
		c.Logf("v.Reset()")
		w.guard("Reset", func() { w.v.Reset() })
		for i := range w.m {
			w.m[i] = 0
		}
		w.mutated("Reset")
	case 4: // iteration sweep (mutates the private structures: zero entries are dropped)
		w.sweep("sweep")
	case 5: // Swap
		i, j := w.idx(), w.idx()
		if avoidSwap && (w.m[i] == 0 || w.m[j] == 0) {
			return
		}
		c.Logf("v.Swap(%d,%d)", i, j)
		w.guard("Swap", func() { w.v.Swap(i, j) })
		kind := "Swap(" + w.present(i) + "," + w.present(j) + ")"
		w.m[i], w.m[j] = w.m[j], w.m[i]
		w.mutated(kind)
	case 6: // Permute: afterwards position i holds the element that was at pi[i]
		pi := randPerm(t, n)
		c.Logf("v.Permute(%v)", pi)
		var err error
		w.guard("Permute", func() { err = w.v.Permute(pi) })
		if err != nil {
			w.fail("result", "Permute|error-on-valid-permutation", "Permute(%v) returned %v", pi, err)
		}
		old := append([]float64(nil), w.m...)
		for i := 0; i < n; i++ {
			w.m[i] = old[pi[i]]
		}
		w.rebuilt()
		w.mutated("Permute")
	case 7:
		rev := t.Bool(1, 2)
		c.Logf("v.Sort(%v)", rev)
		w.guard("Sort", func() { w.v.Sort(rev) })
		sortFloats(w.m, rev)
		w.rebuilt()
		w.mutated("Sort")
	case 8:
		c.Logf("v.ReverseOrder()")
		w.guard("ReverseOrder", func() { w.v.ReverseOrder() })
		for i, j := 0, n-1; i < j; i, j = i+1, j-1 {
			w.m[i], w.m[j] = w.m[j], w.m[i]
		}
		w.rebuilt()
		w.mutated("ReverseOrder")
	case 9: // Append: the only way the length may change
		if n >= 12 {
			return
		}
		k := t.Range(1, 3)
		if t.Bool(1, 2) {
			xs := randVals(t, w.e, k)
			sc := make([]ad.Scalar, k)
			for i, x := range xs {
				sc[i] = ad.NewScalar(w.e.t, x)
			}
			c.Logf("v = v.AppendScalar(%s)", fmtVals(xs))
			w.guard("AppendScalar", func() { w.v = w.v.AppendScalar(sc...) })
			w.m = append(w.m, xs...)
		} else {
			o, om, st := w.operand(k)
			c.Logf("v = v.AppendVector(%s %s)", st, fmtVals(om))
			w.guard("AppendVector", func() { w.v = w.v.AppendVector(o) })
			w.m = append(w.m, om...)
		}
		w.rebuilt() // iterators belong to the previous object
		w.mutated("Append")
	case 10: // live iterator: create or advance
		w.iterStep()
	case 11: // write through a live iterator (zero included)
		w.iterWrite()
	case 12: // read-only slice handle
		if len(w.slices) < 2 {
			lo := t.Choose(n + 1)
			hi := lo + t.Choose(n-lo+1)
			c.Logf("s%d = v.Slice(%d,%d)", len(w.slices), lo, hi)
			var s ad.ConstVector
			if t.Bool(1, 2) {
				w.guard("Slice", func() { s = w.v.Slice(lo, hi) })
			} else {
				w.guard("ConstSlice", func() { s = w.v.ConstSlice(lo, hi) })
			}
			w.slices = append(w.slices, &svSlice{s, lo, hi})
		}
	case 13: // arithmetic with the vector as receiver; operands are fresh objects
		w.arith()
	case 14: // Map / MapSet with functions that keep zero at zero
		if t.Bool(1, 2) {
			c.Logf("v.Map(x -> -x)")
			w.guard("Map", func() { w.v.Map(func(s ad.Scalar) { s.SetFloat64(-s.GetFloat64()) }) })
			for i := range w.m {
				w.m[i] = -w.m[i]
				if w.m[i] == 0 {
					w.m[i] = 0 // no negative zero in the model
				}
			}
			w.mutated("Map")
		} else {
			c.Logf("v.MapSet(x -> 2x)")
			w.guard("MapSet", func() {
				w.v.MapSet(func(s ad.ConstScalar) ad.Scalar { return ad.NewScalar(w.e.t, 2*s.GetFloat64()) })
			})
			for i := range w.m {
				w.m[i] = w.e.norm(2 * w.m[i])
			}
			w.mutated("MapSet")
		}
		w.renorm()
	case 15: // vector as operand of a fresh receiver
		w.asOperand()
	case 16: // Reduce / Equals / String / Table
		w.readers()
	case 17: // clone must equal the model and is discarded
		var cl ad.Vector
		w.guard("CloneVector", func() { cl = w.v.CloneVector() })
		w.compareVector("CloneVector", cl, w.m)
	}
}

// renorm keeps magnitudes small (a sequence of ordinary element writes).
func (w *svWorld) renorm() {
	big := false
	for _, x := range w.m {
		if x > 64 || x < -64 {
			big = true
		}
	}
	if !big {
		return
	}
	for i, x := range w.m {
		if x > 64 || x < -64 {
			nv := float64(int(x) % 5)
			w.guard("At.Set", func() { w.v.At(i).SetFloat64(nv) })
			w.m[i] = nv
		}
	}
	w.c.Logf("renormalise -> %s", fmtVals(w.m))
}

func (w *svWorld) arith() {
	t, c, n := w.c.Tape, w.c, len(w.m)
	a, am, sa := w.operand(n)
	b, bm, sb := w.operand(n)
	kind := t.Choose(10)
	// the concrete-type variants (VADDV, ...) where receiver and operands have
	// the same concrete type; the interface methods otherwise
	typed := t.Bool(1, 3)
	res := make([]float64, n)
	var name string
	if (kind == 6 || kind == 7) && n == 0 {
		kind = 0
	}
	call := func(upper string, iface func(), args ...interface{}) {
		w.guard(name, func() {
			if typed && typedCall(w.v, upper, args...) {
				name = upper
				c.Count("typed-variant:" + upper)
				return
			}
			iface()
		})
	}
	switch kind {
	case 6, 7: // matrix-vector products into the sparse receiver
		k := t.Range(1, 4)
		xm := randVals(t, w.e, k)
		sx := t.Bool(1, 2)
		x := mkVector(w.e, sx, xm)
		sm := t.Bool(1, 2)
		if kind == 6 {
			name = "MdotV"
			mm := randVals(t, w.e, n*k)
			for i := 0; i < n; i++ {
				s := 0.0
				for q := 0; q < k; q++ {
					s = w.e.norm(s + w.e.norm(mm[i*k+q]*xm[q]))
				}
				res[i] = s
			}
			c.Logf("v.MdotV(%s %dx%d %s, %s %s)", storageName(sm), n, k, fmtVals(mm), storageName(sx), fmtVals(xm))
			M := mkMatrix(w.e, sm, n, k, mm)
			w.guard(name, func() { w.v.MdotV(M, x) })
		} else {
			name = "VdotM"
			mm := randVals(t, w.e, k*n)
			for j := 0; j < n; j++ {
				s := 0.0
				for q := 0; q < k; q++ {
					s = w.e.norm(s + w.e.norm(xm[q]*mm[q*n+j]))
				}
				res[j] = s
			}
			c.Logf("v.VdotM(%s %s, %s %dx%d %s)", storageName(sx), fmtVals(xm), storageName(sm), k, n, fmtVals(mm))
			M := mkMatrix(w.e, sm, k, n, mm)
			w.guard(name, func() { w.v.VdotM(x, M) })
		}
		for i := range res {
			if res[i] == 0 {
				res[i] = 0
			}
		}
		copy(w.m, res)
		w.mutated(name)
		w.renorm()
		return
	}
	switch kind {
	case 0:
		name = "VaddV"
		for i := range res {
			res[i] = w.e.norm(am[i] + bm[i])
		}
		c.Logf("v.VaddV(%s %s, %s %s)", sa, fmtVals(am), sb, fmtVals(bm))
		call("VADDV", func() { w.v.VaddV(a, b) }, a, b)
	case 1:
		name = "VsubV"
		for i := range res {
			res[i] = w.e.norm(am[i] - bm[i])
		}
		c.Logf("v.VsubV(%s %s, %s %s)", sa, fmtVals(am), sb, fmtVals(bm))
		call("VSUBV", func() { w.v.VsubV(a, b) }, a, b)
	case 2:
		name = "VmulV"
		for i := range res {
			res[i] = w.e.norm(am[i] * bm[i])
		}
		c.Logf("v.VmulV(%s %s, %s %s)", sa, fmtVals(am), sb, fmtVals(bm))
		call("VMULV", func() { w.v.VmulV(a, b) }, a, b)
	case 3:
		name = "VaddS"
		x := val(t, w.e)
		for i := range res {
			res[i] = w.e.norm(am[i] + x)
		}
		c.Logf("v.VaddS(%s %s, %g)", sa, fmtVals(am), x)
		call("VADDS", func() { w.v.VaddS(a, ad.NewScalar(w.e.t, x)) }, a, ad.NewScalar(w.e.t, x))
	case 4:
		name = "VmulS"
		x := val(t, w.e)
		for i := range res {
			res[i] = w.e.norm(am[i] * x)
		}
		c.Logf("v.VmulS(%s %s, %g)", sa, fmtVals(am), x)
		call("VMULS", func() { w.v.VmulS(a, ad.NewScalar(w.e.t, x)) }, a, ad.NewScalar(w.e.t, x))
	case 5:
		name = "VsubS"
		x := val(t, w.e)
		for i := range res {
			res[i] = w.e.norm(am[i] - x)
		}
		c.Logf("v.VsubS(%s %s, %g)", sa, fmtVals(am), x)
		call("VSUBS", func() { w.v.VsubS(a, ad.NewScalar(w.e.t, x)) }, a, ad.NewScalar(w.e.t, x))
	case 8:
		// division by a vector without zeros
		name = "VdivV"
		bm = nonzero(bm)
		b = mkVector(w.e, sb == storageName(true), bm)
		for i := range res {
			res[i] = w.e.norm(am[i] / bm[i])
		}
		c.Logf("v.VdivV(%s %s, %s %s)", sa, fmtVals(am), sb, fmtVals(bm))
		call("VDIVV", func() { w.v.VdivV(a, b) }, a, b)
	case 9:
		name = "VdivS"
		x := nzval(t, w.e)
		for i := range res {
			res[i] = w.e.norm(am[i] / x)
		}
		c.Logf("v.VdivS(%s %s, %g)", sa, fmtVals(am), x)
		call("VDIVS", func() { w.v.VdivS(a, ad.NewScalar(w.e.t, x)) }, a, ad.NewScalar(w.e.t, x))
	}
	for i := range res {
		if res[i] == 0 {
			res[i] = 0
		}
	}
	copy(w.m, res)
	w.mutated(name + "(" + sa + "," + sb + ")")
	w.renorm()
}

// asOperand uses the vector under test as an operand of fresh receivers.
func (w *svWorld) asOperand() {
	t, c, n := w.c.Tape, w.c, len(w.m)
	b, bm, sb := w.operand(n)
	sparseR := t.Bool(1, 2)
	var r ad.Vector
	if sparseR {
		r = ad.NullSparseVector(w.e.t, n)
	} else {
		r = ad.NullDenseVector(w.e.t, n)
	}
	res := make([]float64, n)
	first := t.Bool(1, 2)
	for i := range res {
		if first {
			res[i] = w.e.norm(w.m[i] - bm[i])
		} else {
			res[i] = w.e.norm(bm[i] - w.m[i])
		}
	}
	c.Logf("r(%s).VsubV(v first=%v, %s %s)", storageName(sparseR), first, sb, fmtVals(bm))
	w.guard("operand-of-VsubV", func() {
		if first {
			r.VsubV(w.v, b)
		} else {
			r.VsubV(b, w.v)
		}
	})
	// using the vector as an operand may legitimately prune zero entries, so it
	// counts as a (structure-only) mutation for the slice handles
	w.slices = nil
	w.compareVector("operand-of-VsubV("+storageName(sparseR)+" receiver)", r, res)
}

func (w *svWorld) readers() {
	c := w.c
	var sum ad.Scalar
	w.guard("Reduce", func() {
		sum = w.v.Reduce(func(r ad.Scalar, x ad.ConstScalar) ad.Scalar {
			r.SetFloat64(r.GetFloat64() + x.GetFloat64())
			return r
		}, ad.NewScalar(ad.Float64Type, 0))
	})
	want, mag := 0.0, 1.0
	for _, x := range w.m {
		want += x
		mag += math.Abs(x)
	}
	// (the library's own sum is not logged: the order in which it adds the
	// entries, and with it the last bit, is not seed-controlled)
	c.Logf("v.Reduce(+), model sum %g", want)
	// the order of the traversal is not part of the contract: quotients are not
	// dyadic, so the sum is compared up to rounding
	if math.Abs(sum.GetFloat64()-want) > 1e-12*mag {
		w.fail("model", "Reduce|wrong-value", "Reduce(+) = %g, model sum %g, model %s", sum.GetFloat64(), want, fmtVals(w.m))
	}
	same := mkVector(w.e, w.c.Tape.Bool(1, 2), w.m)
	var eq bool
	w.guard("Equals", func() { eq = w.v.Equals(same, 1e-12) })
	if !eq {
		w.fail("model", "Equals|false-on-equal", "Equals(vector holding the model %s) = false", fmtVals(w.m))
	}
	if len(w.m) > 0 {
		i := w.idx()
		diff := append([]float64(nil), w.m...)
		diff[i] += 1
		other := mkVector(w.e, w.c.Tape.Bool(1, 2), diff)
		w.guard("Equals", func() { eq = w.v.Equals(other, 1e-12) })
		if eq {
			w.fail("model", "Equals|true-on-different", "Equals(%s) = true although the model is %s", fmtVals(diff), fmtVals(w.m))
		}
	}
	w.guard("String", func() { _ = fmt.Sprint(w.v) })
	w.guard("Table", func() { _ = w.v.Table() })
	w.slices = nil
}

/* live iterators --------------------------------------------------------------- */

func (w *svWorld) nextNonzero(from int) (int, bool) {
	for i := from; i < len(w.m); i++ {
		if w.m[i] != 0 {
			return i, true
		}
	}
	return 0, false
}

func (w *svWorld) observeIter(k int, want int, ok bool, what string) {
	h := w.iters[k]
	var gotOk bool
	w.guard(what+".Ok", func() { gotOk = h.it.Ok() })
	if gotOk != ok {
		w.fail("iteration", what+"|Ok-mismatch", "it%d after %s: Ok()=%v but the model says %v (next non-zero position %d), model %s", k, what, gotOk, ok, want, fmtVals(w.m))
	}
	h.alive = ok
	if !ok {
		return
	}
	var idx int
	var x float64
	var isnil bool
	w.guard(what+".Index/Get", func() {
		idx = h.it.Index()
		s := h.it.GetConst()
		if s == nil {
			isnil = true
		} else {
			x = s.GetFloat64()
		}
	})
	if idx != want {
		w.fail("iteration", what+"|wrong-position", "it%d after %s: Index()=%d, the next non-zero position is %d, model %s", k, what, idx, want, fmtVals(w.m))
	}
	if isnil || x != w.m[want] {
		w.fail("iteration", what+"|wrong-value", "it%d after %s at %d: value %g (nil=%v), model %g", k, what, idx, x, isnil, w.m[want])
	}
	h.pos = want
}

func (w *svWorld) iterStep() {
	t, c := w.c.Tape, w.c
	if len(w.iters) < 3 && (len(w.iters) == 0 || t.Bool(1, 4)) {
		h := &svIter{}
		from := 0
		switch t.Choose(4) {
		case 0:
			h.kind = "Iterator"
			w.guard("Iterator", func() { h.wit = w.v.Iterator(); h.it = h.wit })
		case 1:
			h.kind = "ConstIterator"
			w.guard("ConstIterator", func() { h.it = w.v.ConstIterator() })
		case 2:
			from = t.Choose(len(w.m) + 1)
			h.kind = "IteratorFrom"
			w.guard("IteratorFrom", func() { h.wit = w.v.IteratorFrom(from); h.it = h.wit })
		default:
			from = t.Choose(len(w.m) + 1)
			h.kind = "ConstIteratorFrom"
			w.guard("ConstIteratorFrom", func() { h.it = w.v.ConstIteratorFrom(from) })
		}
		c.Logf("it%d = v.%s(from=%d)", len(w.iters), h.kind, from)
		w.iters = append(w.iters, h)
		want, ok := w.nextNonzero(from)
		w.slices = nil
		w.observeIter(len(w.iters)-1, want, ok, h.kind)
		return
	}
	k := t.Choose(len(w.iters))
	h := w.iters[k]
	if h.zombie {
		// still a caller-visible actor: it may be advanced, but only the
		// container's coherence is checked afterwards
		c.Logf("it%d.Next() (invalidated by a rebuild)", k)
		core.Try(func() {
			if h.it.Ok() {
				h.it.Next()
			}
		})
		c.Count("probe:stale-iterator-advanced-after-rebuild")
		w.slices = nil
		if t.Bool(1, 3) {
			w.iters = append(w.iters[:k], w.iters[k+1:]...)
		}
		return
	}
	if !h.alive {
		// finished iterators are replaced
		w.iters = append(w.iters[:k], w.iters[k+1:]...)
		return
	}
	c.Logf("it%d.Next() from %d", k, h.pos)
	w.guard("Iterator.Next", func() { h.it.Next() })
	c.Count("iterator-next")
	want, ok := w.nextNonzero(h.pos + 1)
	w.slices = nil
	w.observeIter(k, want, ok, "Next")
}

func (w *svWorld) iterWrite() {
	t, c := w.c.Tape, w.c
	for k, h := range w.iters {
		if h.alive && !h.zombie && h.wit != nil {
			x := val(t, w.e)
			// the element the iterator is on may have been zeroed meanwhile;
			// the iterator still addresses that position
			c.Logf("it%d.Get().Set(%g) at %d", k, x, h.pos)
			var isnil bool
			w.guard("Iterator.Get.Set", func() {
				s := h.wit.Get()
				if s == nil {
					isnil = true
					return
				}
				s.SetFloat64(x)
			})
			if isnil {
				if w.m[h.pos] != 0 {
					w.fail("iteration", "Get|nil-on-nonzero", "it%d.Get() is nil at position %d which holds %g", k, h.pos, w.m[h.pos])
				}
				return
			}
			w.m[h.pos] = x
			if x == 0 {
				c.Count("probe:zero-written-under-live-iterator")
			}
			w.mutated("Iterator.Get.Set")
			return
		}
	}
}

/* observation -------------------------------------------------------------------- */

// pointCheck: read-only observation after every step.
func (w *svWorld) pointCheck() {
	var dim int
	w.guard("Dim", func() { dim = w.v.Dim() })
	if dim != len(w.m) {
		w.fail("model", "Dim|changed", "Dim()=%d, model length %d", dim, len(w.m))
	}
	for i := range w.m {
		var x, y float64
		w.guard("Float64At/ConstAt", func() {
			x = w.v.Float64At(i)
			y = w.v.ConstAt(i).GetFloat64()
		})
		if x != w.m[i] || y != w.m[i] {
			w.fail("model", "read|wrong-value", "Float64At(%d)=%g ConstAt(%d)=%g, model %s", i, x, i, y, fmtVals(w.m))
		}
	}
	for k, s := range w.slices {
		var d int
		w.guard("slice.Dim", func() { d = s.v.Dim() })
		if d != s.hi-s.lo {
			w.fail("model", "Slice|Dim", "s%d.Dim()=%d for Slice(%d,%d)", k, d, s.lo, s.hi)
		}
		for i := 0; i < d; i++ {
			var x float64
			w.guard("slice.Float64At", func() { x = s.v.Float64At(i) })
			if x != w.m[s.lo+i] {
				w.fail("model", "Slice|wrong-value", "s%d.Float64At(%d)=%g, model %g (Slice(%d,%d) of %s)", k, i, x, w.m[s.lo+i], s.lo, s.hi, fmtVals(w.m))
			}
		}
	}
	h := hashVals(w.m)
	for _, it := range w.iters {
		if it.alive && !it.zombie {
			h = h*31 + uint64(it.pos)
		} else {
			h = h*31 + 977
		}
	}
	w.c.State(h)
}

// sweep: a full ascending iteration must visit exactly the non-zero positions.
func (w *svWorld) sweep(what string) {
	w.c.Logf("%s: full ConstIterator pass", what)
	got := []int{}
	vals := []float64{}
	w.guard("ConstIterator-sweep", func() {
		n := 0
		for it := w.v.ConstIterator(); it.Ok(); it.Next() {
			got = append(got, it.Index())
			if s := it.GetConst(); s != nil {
				vals = append(vals, s.GetFloat64())
			} else {
				vals = append(vals, 0)
			}
			if n++; n > len(w.m)+3 {
				break
			}
		}
	})
	want := []int{}
	for i, x := range w.m {
		if x != 0 {
			want = append(want, i)
		}
	}
	if len(got) != len(want) {
		w.fail("iteration", "sweep|positions", "iteration visited %v, non-zero positions are %v, model %s", got, want, fmtVals(w.m))
	}
	for i := range got {
		if got[i] != want[i] || vals[i] != w.m[want[i]] {
			w.fail("iteration", "sweep|positions", "iteration visited %v (values %v), non-zero positions are %v, model %s", got, vals, want, fmtVals(w.m))
		}
	}
	w.slices = nil
}

func (w *svWorld) compareVector(what string, r ad.ConstVector, want []float64) {
	var d int
	w.guard(what+".Dim", func() { d = r.Dim() })
	if d != len(want) {
		w.fail("model", what+"|Dim", "%s: Dim()=%d, expected %d", what, d, len(want))
	}
	for i := range want {
		var x float64
		w.guard(what+".Float64At", func() { x = r.Float64At(i) })
		if x != want[i] {
			got := make([]float64, d)
			for j := range got {
				got[j] = r.Float64At(j)
			}
			w.fail("model", what+"|wrong-value", "%s: result %s, expected %s (v = %s)", what, fmtVals(got), fmtVals(want), fmtVals(w.m))
		}
	}
}
