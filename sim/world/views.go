package world

import (
	"math"
	"fmt"
	"os"
	"regexp"
	"path/filepath"
	"sort"
	"strings"

	ad "github.com/pbenner/autodiff"
	"verif/sim/core"
)

/* C10: views and transposes ------------------------------------------------------
 *
 * One root matrix (dense or sparse storage, element type drawn per run) and a
 * growing set of handles: Slice / T / ConstSlice views, nested up to depth 3.
 * Oracle 1 (addressing): an index-map model says which storage element every
 * (i,j) of every handle denotes; after every step all handles are read back
 * through the public API and compared.  Oracle 2 (the property's own words):
 * every operation applied to a view is also applied to an independent deep
 * copy holding the same elements, and the two results must be equal; the deep
 * copy's result is what the model adopts for the written region, so this
 * engine needs no model of the arithmetic itself and cannot blame a view for
 * a defect that the plain container has too.
 */

type vHandle struct {
	name     string
	m        ad.Matrix      // nil for const handles
	cm       ad.ConstMatrix // always set
	rows     int
	cols     int
	at       func(i, j int) int // (i,j) -> index into the storage model
	depth    int
	readonly bool
	kinds    string // e.g. "Slice.T"
	snapshot bool   // avoidance: treat as read-only snapshot, dropped on next mutation
}

type vWorld struct {
	c       *core.Ctx
	e       elemType
	sparse  bool
	st      []float64 // storage model, root is R x C row-major
	R, C    int
	hs      []*vHandle
	muts    int
	viewOps int
	tmpdir  string
}

func (w *vWorld) fail(oracle, failure, format string, args ...interface{}) {
	w.c.Fail(oracle, storageName(w.sparse)+"Matrix|"+failure, format, args...)
}

func RunViews(c *core.Ctx, sparse bool) {
	t := c.Tape
	w := &vWorld{c: c, e: pickType(t), sparse: sparse}
	defer func() {
		// also on the Fail path (a failed run unwinds by panic)
		if w.tmpdir != "" {
			os.RemoveAll(w.tmpdir)
		}
	}()
	w.R, w.C = t.Range(0, 5), t.Range(0, 5)
	if t.Bool(3, 4) {
		w.R, w.C = t.Range(1, 5), t.Range(1, 5)
	}
	w.st = randVals(t, w.e, w.R*w.C)
	root := mkMatrix(w.e, sparse, w.R, w.C, w.st)
	C := w.C
	w.hs = append(w.hs, &vHandle{name: "root", m: root, cm: root, rows: w.R, cols: w.C, at: func(i, j int) int { return i*C + j }, kinds: "root"})
	c.Logf("root = %s %s matrix %dx%d %s", storageName(sparse), w.e.name, w.R, w.C, fmtVals(w.st))
	if w.e.isReal() && w.R*w.C > 0 && t.Bool(2, 3) {
		// make some elements independent variables so that derivative copy
		// semantics through views are observable
		k := t.Range(1, min(3, w.R*w.C))
		vars := []ad.MagicScalar{}
		for q := 0; q < k; q++ {
			p := t.Choose(w.R * w.C)
			if s, ok := root.At(p/w.C, p%w.C).(ad.MagicScalar); ok {
				vars = append(vars, s)
			}
		}
		if pv, _ := core.Try(func() { ad.Variables(1, vars...) }); pv == nil {
			c.Logf("Variables(1, %d elements)", len(vars))
			c.Count("probe:derivatives-attached")
		}
	}
	nops := t.Range(3, 40)
	w.checkAll("init")
	for i := 0; i < nops; i++ {
		c.Steps++
		w.step()
		w.checkAll("step")
	}
	c.Nontriv = w.viewOps >= 3
	c.Sample = map[string]interface{}{"storage": storageName(sparse), "element_type": w.e.name, "root": fmt.Sprintf("%dx%d", w.R, w.C), "handles": len(w.hs), "ops_on_views": w.viewOps, "ops": nops}
}

func min(a, b int) int {
	if a < b {
		return a
	}
	return b
}

func (w *vWorld) guard(op string, f func()) {
	if pv, site := core.Try(f); pv != nil {
		w.fail("no-panic", "panic-in:"+op+"|"+core.PanicClass(pv), "%s panicked in %s: %v", op, site, pv)
	}
}

/* deep copy and observation ------------------------------------------------------ */

type cellObs struct {
	v float64
	d []float64
}

func readCell(s ad.ConstScalar) cellObs {
	o := cellObs{v: s.GetFloat64()}
	if s.GetOrder() >= 1 {
		for k := 0; k < s.GetN(); k++ {
			o.d = append(o.d, s.GetDerivative(k))
		}
	}
	return o
}

func (a cellObs) equal(b cellObs) bool {
	if !sameVal(a.v, b.v) {
		return false
	}
	// a missing derivative vector equals an all-zero one
	n := len(a.d)
	if len(b.d) > n {
		n = len(b.d)
	}
	for k := 0; k < n; k++ {
		var x, y float64
		if k < len(a.d) {
			x = a.d[k]
		}
		if k < len(b.d) {
			y = b.d[k]
		}
		if !sameVal(x, y) {
			return false
		}
	}
	return true
}

func (a cellObs) String() string {
	if len(a.d) == 0 {
		return fmt.Sprintf("%g", a.v)
	}
	return fmt.Sprintf("%g%v", a.v, a.d)
}

type obs struct {
	kind  string // what was observed
	r, c  int
	cells []cellObs
	str   string
	err   bool
	pan   string
}

func (o obs) String() string {
	if o.pan != "" {
		return "panic(" + o.pan + ")"
	}
	s := fmt.Sprintf("%s %dx%d %v", o.kind, o.r, o.c, o.cells)
	if o.str != "" {
		s += " " + o.str
	}
	if o.err {
		s += " error"
	}
	return s
}

var negZero = regexp.MustCompile(`(^|[^0-9.eE])-0($|[^0-9.])`)

// normStr removes the sign of zeros: a deep copy built through At().Set() of a
// sparse matrix does not carry -0 entries, which is not a view defect.
func normStr(s string) string {
	for i := 0; i < 2; i++ {
		s = negZero.ReplaceAllString(s, "${1}0${2}")
	}
	return s
}

func (a obs) equal(b obs) bool {
	if a.pan != "" || b.pan != "" {
		return (a.pan != "") == (b.pan != "")
	}
	if a.kind != b.kind || a.r != b.r || a.c != b.c || normStr(a.str) != normStr(b.str) || a.err != b.err || len(a.cells) != len(b.cells) {
		return false
	}
	for i := range a.cells {
		if !a.cells[i].equal(b.cells[i]) {
			return false
		}
	}
	return true
}

func obsMatrix(kind string, m ad.ConstMatrix) obs {
	r, c := m.Dims()
	o := obs{kind: kind, r: r, c: c}
	for i := 0; i < r; i++ {
		for j := 0; j < c; j++ {
			o.cells = append(o.cells, readCell(m.ConstAt(i, j)))
		}
	}
	return o
}

func obsVector(kind string, v ad.ConstVector) obs {
	o := obs{kind: kind, r: v.Dim(), c: 1}
	for i := 0; i < v.Dim(); i++ {
		o.cells = append(o.cells, readCell(v.ConstAt(i)))
	}
	return o
}

// deepCopy builds an independent matrix of the same storage kind and element
// type, element by element through the public API.
func (w *vWorld) deepCopy(h *vHandle) ad.Matrix {
	var cp ad.Matrix
	if w.sparse {
		cp = ad.NullSparseMatrix(w.e.t, h.rows, h.cols)
	} else {
		cp = ad.NullDenseMatrix(w.e.t, h.rows, h.cols)
	}
	for i := 0; i < h.rows; i++ {
		for j := 0; j < h.cols; j++ {
			s := h.cm.ConstAt(i, j)
			if !w.sparse || s.GetFloat64() != 0 || (s.GetOrder() >= 1 && s.GetN() > 0) {
				cp.At(i, j).Set(s)
			}
		}
	}
	return cp
}

/* the step ------------------------------------------------------------------------- */

func (w *vWorld) pickHandle(writable bool) *vHandle {
	t := w.c.Tape
	cands := []*vHandle{}
	for _, h := range w.hs {
		if writable && (h.readonly || h.snapshot) {
			continue
		}
		cands = append(cands, h)
	}
	// prefer views over the root
	if len(cands) > 1 && t.Bool(3, 4) {
		cands = cands[1:]
	}
	return cands[t.Choose(len(cands))]
}

func (w *vWorld) dropSnapshots() {
	keep := w.hs[:0]
	for _, h := range w.hs {
		if !h.snapshot {
			keep = append(keep, h)
		}
	}
	w.hs = keep
}

func (w *vWorld) step() {
	t := w.c.Tape
	switch t.Pick([]int{10, 6, 5, 14, 14, 2, 4}) {
	case 6:
		w.copyAccessorWrite()
		return
	}
	switch t.Pick([]int{10, 6, 5, 14, 14, 2, 3, 3}) {
	case 7:
		w.siblingAsOperand()
	case 0:
		w.newView()
	case 1: // direct element write through a handle
		h := w.pickHandle(true)
		if h.rows == 0 || h.cols == 0 {
			return
		}
		i, j, x := t.Choose(h.rows), t.Choose(h.cols), val(t, w.e)
		w.c.Logf("%s.At(%d,%d) <- %g", h.name, i, j, x)
		w.guard("At.Set", func() { h.m.At(i, j).SetFloat64(x) })
		w.st[h.at(i, j)] = x
		w.mutatedBy(h)
	case 2: // write through the root while views exist
		h := w.hs[0]
		if h.rows == 0 || h.cols == 0 {
			return
		}
		i, j, x := t.Choose(h.rows), t.Choose(h.cols), val(t, w.e)
		w.c.Logf("root.At(%d,%d) <- %g", i, j, x)
		w.guard("At.Set", func() { h.m.At(i, j).SetFloat64(x) })
		w.st[h.at(i, j)] = x
		w.mutatedBy(h)
	case 3:
		w.mutatingOp()
	case 4:
		w.readingOp()
	case 5:
		w.tip()
	case 6:
		w.parentAsOperand()
	}
}

// parentAsOperand: a view as the receiver of a product whose right operand is
// the matrix it is a view of ("every public operation taking the view as
// receiver or operand").  The library either rejects the aliasing loudly or
// gives what an independent receiver gives.
func (w *vWorld) parentAsOperand() {
	t := w.c.Tape
	root := w.hs[0]
	var cands []*vHandle
	for _, h := range w.hs[1:] {
		if h.m == nil || h.readonly || h.snapshot || h.rows == 0 || h.cols != w.C || w.C == 0 {
			continue
		}
		// rows r0..r0+rows of the root, all columns, not transposed
		r0, ok := h.at(0, 0)/w.C, true
		for i := 0; i < h.rows && ok; i++ {
			for j := 0; j < h.cols; j++ {
				if h.at(i, j) != (r0+i)*w.C+j {
					ok = false
					break
				}
			}
		}
		if ok {
			cands = append(cands, h)
		}
	}
	if len(cands) == 0 {
		return
	}
	h := cands[t.Choose(len(cands))]
	a := mkMatrix(w.e, t.Bool(1, 2), h.rows, w.R, randVals(t, w.e, h.rows*w.R))
	var cp, rootCopy ad.Matrix
	w.guard("deep-copy", func() { cp, rootCopy = w.deepCopy(h), w.deepCopy(root) })
	w.c.Logf("%s.MdotM(a, root) with a = %dx%d %v [%s]: the receiver is a view of the right operand", h.name, h.rows, w.R, valuesOf(a), h.kinds)
	// the reference first: if the independent product fails (an element type
	// or derivative-count matter, not a view matter) the view is left alone
	if pv, _ := core.Try(func() { cp.MdotM(a, rootCopy) }); pv != nil {
		w.c.Count("independent-product-panicked:MdotM")
		return
	}
	if pv, _ := core.Try(func() { h.m.MdotM(a, root.m) }); pv != nil {
		// rejected: nothing may have changed (the regular checks follow)
		w.c.Count("aliasing-rejected-by-the-library")
		return
	}
	w.viewOps++
	w.c.Count("view-op:MdotM-with-the-parent-as-operand")
	want := obsMatrix("", cp)
	for i := 0; i < h.rows; i++ {
		for j := 0; j < h.cols; j++ {
			var got cellObs
			w.guard("ConstAt", func() { got = readCell(h.cm.ConstAt(i, j)) })
			if !got.equal(want.cells[i*h.cols+j]) {
				w.fail("view-vs-deep-copy", "MdotM-with-the-parent-as-operand|contents-differ", "%s.MdotM(a, root) [%s]: element (%d,%d) = %s, an independent receiver with a copy of the root holds %s", h.name, h.kinds, i, j, got, want.cells[i*h.cols+j])
			}
			w.st[h.at(i, j)] = want.cells[i*h.cols+j].v
		}
	}
	w.muts++
	w.dropSnapshots()
}

// siblingAsOperand: the receiver of a product is a view, and one operand is
// ANOTHER view object that denotes the same elements (a full-range slice of the
// receiver, or its transpose transposed back).  An in-place product needs a
// temporary; the library has to notice that the two objects share their
// elements (or reject the call loudly).  Reference: an independent receiver
// and an independent operand holding the same elements.
func (w *vWorld) siblingAsOperand() {
	t := w.c.Tape
	var cands []*vHandle
	for _, h := range w.hs {
		if h.m != nil && !h.readonly && !h.snapshot && h.rows > 0 && h.cols > 0 && h.rows <= 4 && h.cols <= 4 {
			cands = append(cands, h)
		}
	}
	if len(cands) == 0 {
		return
	}
	h := cands[t.Choose(len(cands))]
	left := t.Bool(1, 2) // the sibling is the left operand: r = sibling . a
	k := h.rows
	if left {
		k = h.cols
	}
	am := randVals(t, w.e, k*k)
	how := "Slice(0,rows,0,cols)"
	var sib ad.Matrix
	w.guard("sibling", func() {
		if !w.sparse && t.Bool(1, 2) {
			how = "T().T()"
			sib = h.m.T().T()
		} else {
			sib = h.m.Slice(0, h.rows, 0, h.cols)
		}
	})
	typed := !w.sparse && t.Bool(1, 2)
	a := mkMatrix(w.e, !typed && t.Bool(1, 2), k, k, am)
	var cp, sibCopy ad.Matrix
	w.guard("deep-copy", func() { cp, sibCopy = w.deepCopy(h), w.deepCopy(h) })
	name := "MdotM"
	if typed {
		name = "MDOTM"
	}
	w.c.Logf("%s.%s with %s.%s as the %v operand, a = %dx%d %v [%s]", h.name, name, h.name, how, map[bool]string{true: "left", false: "right"}[left], k, k, am, h.kinds)
	product := func(r, s ad.Matrix) {
		x, y := ad.Matrix(a), s
		if left {
			x, y = s, a
		}
		if typed && typedCall(r, "MDOTM", x, y) {
			return
		}
		r.MdotM(x, y)
	}
	// the reference first: if the independent product fails (an element type
	// or derivative-count matter, not a view matter) the view is left alone
	if pv, _ := core.Try(func() { product(cp, sibCopy) }); pv != nil {
		w.c.Count("independent-product-panicked:" + name)
		return
	}
	if pv, _ := core.Try(func() { product(h.m, sib) }); pv != nil {
		// rejected loudly; whatever the receiver holds now is what it holds
		w.c.Count("aliasing-rejected-by-the-library")
		for i := 0; i < h.rows; i++ {
			for j := 0; j < h.cols; j++ {
				w.guard("ConstAt", func() { w.st[h.at(i, j)] = h.cm.ConstAt(i, j).GetFloat64() })
			}
		}
		w.muts++
		w.dropSnapshots()
		return
	}
	w.viewOps++
	w.c.Count("view-op:" + name + "-with-a-sibling-view-as-operand")
	want := obsMatrix("", cp)
	for i := 0; i < h.rows; i++ {
		for j := 0; j < h.cols; j++ {
			var got cellObs
			w.guard("ConstAt", func() { got = readCell(h.cm.ConstAt(i, j)) })
			if !got.equal(want.cells[i*h.cols+j]) {
				w.fail("view-vs-deep-copy", name+"-with-a-sibling-view-as-operand|contents-differ", "%s.%s with %s of itself as operand [%s]: element (%d,%d) = %s, an independent receiver with an independent operand holds %s", h.name, name, how, h.kinds, i, j, got, want.cells[i*h.cols+j])
			}
			w.st[h.at(i, j)] = want.cells[i*h.cols+j].v
		}
	}
	w.muts++
	w.dropSnapshots()
}

func (w *vWorld) mutatedBy(h *vHandle) {
	w.muts++
	if h.kinds != "root" {
		w.viewOps++
	}
	w.dropSnapshots()
}

func (w *vWorld) newView() {
	t := w.c.Tape
	if len(w.hs) >= 6 {
		// forget a random non-root handle
		k := 1 + t.Choose(len(w.hs)-1)
		w.c.Logf("drop %s", w.hs[k].name)
		w.hs = append(w.hs[:k], w.hs[k+1:]...)
		return
	}
	cands := []*vHandle{}
	for _, h := range w.hs {
		if h.depth < 3 && !h.snapshot {
			cands = append(cands, h)
		}
	}
	p := cands[t.Choose(len(cands))]
	name := fmt.Sprintf("h%d", w.c.Steps)
	nh := &vHandle{name: name, depth: p.depth + 1, readonly: p.readonly}
	pat := p.at
	switch t.Pick([]int{5, 4, 2}) {
	case 0, 2:
		r0 := t.Choose(p.rows + 1)
		r1 := r0 + t.Choose(p.rows-r0+1)
		c0 := t.Choose(p.cols + 1)
		c1 := c0 + t.Choose(p.cols-c0+1)
		nh.rows, nh.cols = r1-r0, c1-c0
		nh.at = func(i, j int) int { return pat(r0+i, c0+j) }
		if p.m != nil && t.Bool(3, 4) {
			if mm, ok := p.m.(ad.MagicMatrix); ok && t.Bool(1, 3) {
				// the same view through the interface of the real-valued matrices
				w.c.Logf("%s = %s.MagicSlice(%d,%d,%d,%d)", name, p.name, r0, r1, c0, c1)
				w.guard("MagicSlice", func() { nh.m = mm.MagicSlice(r0, r1, c0, c1).(ad.Matrix); nh.cm = nh.m })
				nh.kinds = p.kinds + ".MagicSlice"
			} else {
				w.c.Logf("%s = %s.Slice(%d,%d,%d,%d)", name, p.name, r0, r1, c0, c1)
				w.guard("Slice", func() { nh.m = p.m.Slice(r0, r1, c0, c1); nh.cm = nh.m })
				nh.kinds = p.kinds + ".Slice"
			}
		} else {
			w.c.Logf("%s = %s.ConstSlice(%d,%d,%d,%d)", name, p.name, r0, r1, c0, c1)
			w.guard("ConstSlice", func() { nh.cm = p.cm.ConstSlice(r0, r1, c0, c1) })
			nh.readonly = true
			nh.kinds = p.kinds + ".ConstSlice"
		}
	case 1:
		if p.m == nil {
			return
		}
		nh.rows, nh.cols = p.cols, p.rows
		nh.at = func(i, j int) int { return pat(j, i) }
		if mm, ok := p.m.(ad.MagicMatrix); ok && t.Bool(1, 3) {
			w.c.Logf("%s = %s.MagicT()", name, p.name)
			w.guard("MagicT", func() { nh.m = mm.MagicT().(ad.Matrix); nh.cm = nh.m })
		} else {
			w.c.Logf("%s = %s.T()", name, p.name)
			w.guard("T", func() { nh.m = p.m.T(); nh.cm = nh.m })
		}
		nh.kinds = p.kinds + ".T"
		if w.sparse && w.c.Avoid["C10-F2"] {
			nh.snapshot = true
		}
	}
	w.hs = append(w.hs, nh)
	w.c.Count("view:" + nh.kinds[strings.LastIndex(nh.kinds, ".")+1:])
	if nh.depth >= 2 {
		w.c.Count("probe:nested-view-depth>=2")
	}
}

// tip: in-place transposition is specified for a matrix that owns its whole
// storage; every other handle is forgotten first.
func (w *vWorld) tip() {
	root := w.hs[0]
	w.hs = w.hs[:1]
	w.c.Logf("root.Tip() (all views dropped)")
	w.guard("Tip", func() { root.m.Tip() })
	nst := make([]float64, len(w.st))
	for i := 0; i < w.R; i++ {
		for j := 0; j < w.C; j++ {
			nst[j*w.R+i] = w.st[i*w.C+j]
		}
	}
	w.st = nst
	w.R, w.C = w.C, w.R
	C := w.C
	root.rows, root.cols = w.R, w.C
	root.at = func(i, j int) int { return i*C + j }
	if w.R != w.C {
		w.c.Count("probe:Tip-on-non-square")
	}
	w.muts++
}

/* differential operations ------------------------------------------------------------ */

type operands struct {
	a, b   []float64 // matrices of the receiver's shape
	x      float64
	sa, sb bool
	pi     []int
	i1, j1, i2, j2 int
	k      int
	left   []float64 // k x rows? see MdotM
}

func (w *vWorld) mkOp(h *vHandle) operands {
	t := w.c.Tape
	o := operands{sa: t.Bool(1, 2), sb: t.Bool(1, 2), x: val(t, w.e)}
	o.a = randVals(t, w.e, h.rows*h.cols)
	o.b = randVals(t, w.e, h.rows*h.cols)
	if h.rows > 0 && h.cols > 0 {
		o.i1, o.j1, o.i2, o.j2 = t.Choose(h.rows), t.Choose(h.cols), t.Choose(h.rows), t.Choose(h.cols)
	}
	o.pi = randPerm(t, h.rows)
	o.k = t.Range(1, 3)
	return o
}

// mutatingOp applies one mutating operation to a view and to its deep copy.
func (w *vWorld) mutatingOp() {
	t := w.c.Tape
	h := w.pickHandle(true)
	o := w.mkOp(h)
	type mfun struct {
		name string
		ok   bool
		f    func(m ad.Matrix) obs
	}
	e := w.e
	sq := h.rows == h.cols
	nonempty := h.rows > 0 && h.cols > 0
	ops := []mfun{
		{"Set", true, func(m ad.Matrix) obs { m.Set(mkMatrix(e, o.sa, h.rows, h.cols, o.a)); return obs{} }},
		{"Reset", true, func(m ad.Matrix) obs { m.Reset(); return obs{} }},
		{"SetIdentity", true, func(m ad.Matrix) obs { m.SetIdentity(); return obs{} }},
		{"Swap", nonempty, func(m ad.Matrix) obs { m.Swap(o.i1, o.j1, o.i2, o.j2); return obs{} }},
		{"SwapRows", nonempty && sq, func(m ad.Matrix) obs { return obs{err: m.SwapRows(o.i1, o.i2) != nil} }},
		{"SwapColumns", nonempty && sq, func(m ad.Matrix) obs { return obs{err: m.SwapColumns(o.j1, o.j2) != nil} }},
		{"PermuteRows", nonempty && sq, func(m ad.Matrix) obs { return obs{err: m.PermuteRows(o.pi) != nil} }},
		{"PermuteColumns", nonempty && sq, func(m ad.Matrix) obs { return obs{err: m.PermuteColumns(o.pi) != nil} }},
		{"SymmetricPermutation", nonempty && sq, func(m ad.Matrix) obs { return obs{err: m.SymmetricPermutation(o.pi) != nil} }},
		{"MaddM", true, func(m ad.Matrix) obs {
			m.MaddM(mkMatrix(e, o.sa, h.rows, h.cols, o.a), mkMatrix(e, o.sb, h.rows, h.cols, o.b))
			return obs{}
		}},
		{"MsubM", true, func(m ad.Matrix) obs {
			m.MsubM(mkMatrix(e, o.sa, h.rows, h.cols, o.a), mkMatrix(e, o.sb, h.rows, h.cols, o.b))
			return obs{}
		}},
		{"MmulM", true, func(m ad.Matrix) obs {
			m.MmulM(mkMatrix(e, o.sa, h.rows, h.cols, o.a), mkMatrix(e, o.sb, h.rows, h.cols, o.b))
			return obs{}
		}},
		{"MaddS", true, func(m ad.Matrix) obs {
			m.MaddS(mkMatrix(e, o.sa, h.rows, h.cols, o.a), ad.NewScalar(e.t, o.x))
			return obs{}
		}},
		{"MmulS", true, func(m ad.Matrix) obs {
			m.MmulS(mkMatrix(e, o.sa, h.rows, h.cols, o.a), ad.NewScalar(e.t, o.x))
			return obs{}
		}},
		{"MsubS", true, func(m ad.Matrix) obs {
			m.MsubS(mkMatrix(e, o.sa, h.rows, h.cols, o.a), ad.NewScalar(e.t, o.x))
			return obs{}
		}},
		{"MdotM", nonempty, func(m ad.Matrix) obs {
			// (rows x k) . (k x cols)
			a := mkMatrix(e, o.sa, h.rows, o.k, cycle(o.a, h.rows*o.k))
			b := mkMatrix(e, o.sb, o.k, h.cols, cycle(o.b, o.k*h.cols))
			m.MdotM(a, b)
			return obs{}
		}},
		{"Outer", nonempty, func(m ad.Matrix) obs {
			m.Outer(mkVector(e, o.sa, cycle(o.a, h.rows)), mkVector(e, o.sb, cycle(o.b, h.cols)))
			return obs{}
		}},
		{"MdivM", true, func(m ad.Matrix) obs {
			// divisor without zeros
			m.MdivM(mkMatrix(e, o.sa, h.rows, h.cols, o.a), mkMatrix(e, false, h.rows, h.cols, nonzero(o.b)))
			return obs{}
		}},
		{"MdivS", true, func(m ad.Matrix) obs {
			m.MdivS(mkMatrix(e, o.sa, h.rows, h.cols, o.a), ad.NewScalar(e.t, nonzero([]float64{o.x})[0]))
			return obs{}
		}},
		// the concrete-type variants: receiver and operands of one concrete type
		// (dense storage has them; the interface method is the fallback)
		{"MADDM", !w.sparse, func(m ad.Matrix) obs {
			a, b := mkMatrix(e, false, h.rows, h.cols, o.a), mkMatrix(e, false, h.rows, h.cols, o.b)
			if !typedCall(m, "MADDM", a, b) {
				m.MaddM(a, b)
			}
			return obs{}
		}},
		{"MSUBM", !w.sparse, func(m ad.Matrix) obs {
			a, b := mkMatrix(e, false, h.rows, h.cols, o.a), mkMatrix(e, false, h.rows, h.cols, o.b)
			if !typedCall(m, "MSUBM", a, b) {
				m.MsubM(a, b)
			}
			return obs{}
		}},
		{"MMULM", !w.sparse, func(m ad.Matrix) obs {
			a, b := mkMatrix(e, false, h.rows, h.cols, o.a), mkMatrix(e, false, h.rows, h.cols, o.b)
			if !typedCall(m, "MMULM", a, b) {
				m.MmulM(a, b)
			}
			return obs{}
		}},
		{"MDIVM", !w.sparse, func(m ad.Matrix) obs {
			a, b := mkMatrix(e, false, h.rows, h.cols, o.a), mkMatrix(e, false, h.rows, h.cols, nonzero(o.b))
			if !typedCall(m, "MDIVM", a, b) {
				m.MdivM(a, b)
			}
			return obs{}
		}},
		{"MADDS", !w.sparse, func(m ad.Matrix) obs {
			a, x := mkMatrix(e, false, h.rows, h.cols, o.a), ad.NewScalar(e.t, o.x)
			if !typedCall(m, "MADDS", a, x) {
				m.MaddS(a, x)
			}
			return obs{}
		}},
		{"MSUBS", !w.sparse, func(m ad.Matrix) obs {
			a, x := mkMatrix(e, false, h.rows, h.cols, o.a), ad.NewScalar(e.t, o.x)
			if !typedCall(m, "MSUBS", a, x) {
				m.MsubS(a, x)
			}
			return obs{}
		}},
		{"MMULS", !w.sparse, func(m ad.Matrix) obs {
			a, x := mkMatrix(e, false, h.rows, h.cols, o.a), ad.NewScalar(e.t, o.x)
			if !typedCall(m, "MMULS", a, x) {
				m.MmulS(a, x)
			}
			return obs{}
		}},
		{"MDIVS", !w.sparse, func(m ad.Matrix) obs {
			a, x := mkMatrix(e, false, h.rows, h.cols, o.a), ad.NewScalar(e.t, nonzero([]float64{o.x})[0])
			if !typedCall(m, "MDIVS", a, x) {
				m.MdivS(a, x)
			}
			return obs{}
		}},
		{"MDOTM", !w.sparse && nonempty, func(m ad.Matrix) obs {
			a := mkMatrix(e, false, h.rows, o.k, cycle(o.a, h.rows*o.k))
			b := mkMatrix(e, false, o.k, h.cols, cycle(o.b, o.k*h.cols))
			if !typedCall(m, "MDOTM", a, b) {
				m.MdotM(a, b)
			}
			return obs{}
		}},
		{"OUTER", !w.sparse && nonempty, func(m ad.Matrix) obs {
			a, b := mkVector(e, false, cycle(o.a, h.rows)), mkVector(e, false, cycle(o.b, h.cols))
			if !typedCall(m, "OUTER", a, b) {
				m.Outer(a, b)
			}
			return obs{}
		}},
		{"self-operand-MADDM", !w.sparse, func(m ad.Matrix) obs {
			r, a := mkMatrix(e, false, h.rows, h.cols, o.b), mkMatrix(e, false, h.rows, h.cols, o.a)
			if !typedCall(r, "MADDM", m, a) {
				r.MaddM(m, a)
			}
			return obsMatrix("r.MADDM(view,a)", r)
		}},
		{"ResetDerivatives", true, func(m ad.Matrix) obs {
			if mm, ok := m.(ad.MagicMatrix); ok {
				mm.ResetDerivatives()
			}
			return obs{}
		}},
		{"Variables", true, func(m ad.Matrix) obs {
			if mm, ok := m.(ad.MagicMatrix); ok {
				return obs{err: mm.Variables(1) != nil}
			}
			return obs{}
		}},
		{"Map", true, func(m ad.Matrix) obs { m.Map(func(s ad.Scalar) { s.SetFloat64(s.GetFloat64() + 1) }); return obs{} }},
		{"MapSet", true, func(m ad.Matrix) obs {
			m.MapSet(func(s ad.ConstScalar) ad.Scalar { return ad.NewScalar(e.t, e.norm(2*s.GetFloat64())) })
			return obs{}
		}},
		{"Iterator-write", true, func(m ad.Matrix) obs {
			ob := obs{kind: "Iterator-write"}
			n := 0
			for it := m.Iterator(); it.Ok(); it.Next() {
				i, j := it.Index()
				ob.cells = append(ob.cells, cellObs{v: float64(i*100 + j)})
				it.Get().SetFloat64(e.norm(float64(i + 2*j + 1)))
				if n++; n > 64 {
					break
				}
			}
			return ob
		}},
		{"self-operand-MaddM", true, func(m ad.Matrix) obs {
			// the receiver is a fresh matrix, the view is the first operand
			r := mkMatrix(e, o.sb, h.rows, h.cols, o.b)
			r.MaddM(m, mkMatrix(e, o.sa, h.rows, h.cols, o.a))
			return obsMatrix("r.MaddM(view,a)", r)
		}},
	}
	cands := []mfun{}
	for _, f := range ops {
		if f.ok {
			cands = append(cands, f)
		}
	}
	f := cands[t.Choose(len(cands))]
	w.c.Logf("%s.%s(...) [%s] vs deep copy   a=%s b=%s x=%g pi=%v idx=(%d,%d,%d,%d)", h.name, f.name, h.kinds, fmtVals(o.a), fmtVals(o.b), o.x, o.pi, o.i1, o.j1, o.i2, o.j2)
	w.differential(h, f.name, f.f, true)
}

func cycle(v []float64, n int) []float64 {
	r := make([]float64, n)
	for i := range r {
		if len(v) > 0 {
			r[i] = v[i%len(v)]
		} else {
			r[i] = float64(i%3 + 1)
		}
	}
	return r
}

// differential runs f on the handle and on its independent deep copy and
// compares results and (for mutating f) the final contents.
func (w *vWorld) differential(h *vHandle, name string, f func(m ad.Matrix) obs, mutating bool) {
	var cp ad.Matrix
	w.guard("deep-copy", func() { cp = w.deepCopy(h) })
	before := obsMatrix("", cp)
	var oc, ov obs
	if pv, _ := core.Try(func() { oc = f(cp) }); pv != nil {
		oc = obs{pan: fmt.Sprint(pv)}
	}
	// what the deep copy holds now is what the view must denote afterwards
	after := obsMatrix("", cp)
	// the elements of the root that the view does not denote (values and
	// derivatives) are none of the operation's business
	root := w.hs[0]
	var rootBefore obs
	if mutating {
		w.guard("observe-root", func() { rootBefore = obsMatrix("", root.cm) })
	}
	if pv, site := core.Try(func() { ov = f(h.m) }); pv != nil {
		ov = obs{pan: fmt.Sprintf("%v in %s", pv, site)}
	}
	if mutating && !(oc.pan != "" && ov.pan != "") {
		denoted := map[int]bool{}
		for i := 0; i < h.rows; i++ {
			for j := 0; j < h.cols; j++ {
				denoted[h.at(i, j)] = true
			}
		}
		var rootAfter obs
		w.guard("observe-root", func() { rootAfter = obsMatrix("", root.cm) })
		for i := 0; i < root.rows; i++ {
			for j := 0; j < root.cols; j++ {
				if k := i*root.cols + j; !denoted[root.at(i, j)] && k < len(rootBefore.cells) && k < len(rootAfter.cells) && !rootAfter.cells[k].equal(rootBefore.cells[k]) {
					w.fail("addressing", name+"|element-outside-of-the-view-changed", "%s on %s [%s] changed root element (%d,%d), which the view does not denote: %s -> %s", name, h.name, h.kinds, i, j, rootBefore.cells[k], rootAfter.cells[k])
				}
			}
		}
	}
	if oc.pan != "" && ov.pan != "" {
		// the plain container fails the same way: not a view problem
		w.c.Count("both-panicked:" + name)
		// but neither may have corrupted anything
		after = before
	}
	if h.kinds != "root" {
		w.viewOps++
		w.c.Count("view-op:" + name)
	}
	if !oc.equal(ov) {
		w.fail("view-vs-deep-copy", name+"|result-differs", "%s on %s [%s] returned %s, the same operation on a deep copy returned %s", name, h.name, h.kinds, ov, oc)
	}
	if mutating {
		// adopt the deep copy's contents for the denoted elements
		for i := 0; i < h.rows; i++ {
			for j := 0; j < h.cols; j++ {
				w.st[h.at(i, j)] = after.cells[i*h.cols+j].v
			}
		}
		w.muts++
		w.dropSnapshots()
		// derivatives: view vs deep copy, element by element
		for i := 0; i < h.rows; i++ {
			for j := 0; j < h.cols; j++ {
				var got cellObs
				w.guard("ConstAt", func() { got = readCell(h.cm.ConstAt(i, j)) })
				if w.sparse && name == "Variables" {
					// which elements of a sparse matrix become variables depends on
					// which zeros happen to be stored, and a deep copy stores none:
					// only the values are compared (and the elements outside, above)
					got.d, after.cells[i*h.cols+j].d = nil, nil
				}
				if !got.equal(after.cells[i*h.cols+j]) {
					w.fail("view-vs-deep-copy", name+"|contents-differ", "after %s on %s [%s]: element (%d,%d) = %s, deep copy holds %s", name, h.name, h.kinds, i, j, got, after.cells[i*h.cols+j])
				}
			}
		}
	}
}

/* reading operations ---------------------------------------------------------------------- */

func (w *vWorld) readingOp() {
	t := w.c.Tape
	h := w.pickHandle(false)
	o := w.mkOp(h)
	e := w.e
	nonempty := h.rows > 0 && h.cols > 0
	type rfun struct {
		name string
		ok   bool
		f    func(m ad.Matrix) obs
	}
	var cm func(m ad.Matrix) ad.ConstMatrix = func(m ad.Matrix) ad.ConstMatrix { return m }
	ops := []rfun{
		{"ConstIterator", true, func(m ad.Matrix) obs {
			ob := obs{kind: "iter"}
			n := 0
			for it := cm(m).ConstIterator(); it.Ok(); it.Next() {
				i, j := it.Index()
				ob.cells = append(ob.cells, cellObs{v: float64(i*100 + j)}, readCell(it.GetConst()))
				if n++; n > 64 {
					break
				}
			}
			return ob
		}},
		{"ConstIteratorFrom", nonempty, func(m ad.Matrix) obs {
			ob := obs{kind: "iterfrom"}
			n := 0
			for it := cm(m).ConstIteratorFrom(o.i1, o.j1); it.Ok(); it.Next() {
				i, j := it.Index()
				ob.cells = append(ob.cells, cellObs{v: float64(i*100 + j)}, readCell(it.GetConst()))
				if n++; n > 64 {
					break
				}
			}
			return ob
		}},
		{"JointIterator", true, func(m ad.Matrix) obs {
			ob := obs{kind: "joint"}
			n := 0
			b := mkMatrix(e, o.sb, h.rows, h.cols, o.b)
			for it := m.JointIterator(b); it.Ok(); it.Next() {
				i, j := it.Index()
				s1, s2 := it.GetConst()
				c1, c2 := cellObs{}, cellObs{}
				if s1 != nil {
					c1 = readCell(s1)
				}
				if s2 != nil {
					c2 = readCell(s2)
				}
				ob.cells = append(ob.cells, cellObs{v: float64(i*100 + j)}, c1, c2)
				if n++; n > 64 {
					break
				}
			}
			return ob
		}},
		{"IteratorFrom", nonempty, func(m ad.Matrix) obs {
			ob := obs{kind: "iterfrom-mutable"}
			n := 0
			for it := m.IteratorFrom(o.i1, o.j1); it.Ok(); it.Next() {
				i, j := it.Index()
				ob.cells = append(ob.cells, cellObs{v: float64(i*100 + j)}, readCell(it.Get()))
				if n++; n > 64 {
					break
				}
			}
			return ob
		}},
		{"JointIterator.Get", true, func(m ad.Matrix) obs {
			ob := obs{kind: "joint-get"}
			n := 0
			b := mkMatrix(e, o.sb, h.rows, h.cols, o.b)
			for it := m.JointIterator(b); it.Ok(); it.Next() {
				i, j := it.Index()
				s1, s2 := it.Get()
				c1, c2 := cellObs{}, cellObs{}
				if s1 != nil {
					c1 = readCell(s1)
				}
				if s2 != nil {
					c2 = readCell(s2)
				}
				ob.cells = append(ob.cells, cellObs{v: float64(i*100 + j)}, c1, c2)
				if n++; n > 64 {
					break
				}
			}
			return ob
		}},
		{"MagicIterator", nonempty, func(m ad.Matrix) obs {
			ob := obs{kind: "magic-iter"}
			mm, ok := m.(ad.MagicMatrix)
			if !ok {
				return ob
			}
			n := 0
			for it := mm.MagicIteratorFrom(o.i1, o.j1); it.Ok(); it.Next() {
				i, j := it.Index()
				ob.cells = append(ob.cells, cellObs{v: float64(i*100 + j)}, readCell(it.GetMagic()))
				if n++; n > 64 {
					break
				}
			}
			for it := mm.MagicIterator(); it.Ok(); it.Next() {
				i, j := it.Index()
				ob.cells = append(ob.cells, cellObs{v: float64(i*100 + j)}, readCell(it.GetConst()))
				if n++; n > 128 {
					break
				}
			}
			ob.cells = append(ob.cells, readCell(mm.MagicAt(o.i1, o.j1)))
			return ob
		}},
		{"AsMagicVector", true, func(m ad.Matrix) obs {
			mm, ok := m.(ad.MagicMatrix)
			if !ok {
				return obs{kind: "AsMagicVector"}
			}
			ob := obsVector("AsMagicVector", mm.AsMagicVector())
			sort.Slice(ob.cells, func(i, j int) bool { return ob.cells[i].v < ob.cells[j].v })
			for i := range ob.cells {
				ob.cells[i].d = nil
			}
			return ob
		}},
		{"ConstDiag", nonempty && h.rows == h.cols, func(m ad.Matrix) obs { return obsVector("ConstDiag", cm(m).ConstDiag()) }},
		{"typed-At", nonempty, func(m ad.Matrix) obs {
			return obs{kind: "typed-At", str: fmt.Sprint(m.Int8At(o.i1, o.j1), m.Int16At(o.i1, o.j1), m.Int32At(o.i1, o.j1), m.Int64At(o.i1, o.j1), m.IntAt(o.i1, o.j1), m.Float32At(o.i1, o.j1), m.Float64At(o.i1, o.j1))}
		}},
		{"Row", nonempty, func(m ad.Matrix) obs { return obsVector("Row", m.Row(o.i1)) }},
		{"Col", nonempty, func(m ad.Matrix) obs { return obsVector("Col", m.Col(o.j1)) }},
		{"ConstRow", nonempty, func(m ad.Matrix) obs { return obsVector("ConstRow", cm(m).ConstRow(o.i1)) }},
		{"ConstCol", nonempty, func(m ad.Matrix) obs { return obsVector("ConstCol", cm(m).ConstCol(o.j1)) }},
		{"Diag", nonempty && h.rows == h.cols, func(m ad.Matrix) obs { return obsVector("Diag", m.Diag()) }},
		{"AsVector", true, func(m ad.Matrix) obs {
			// the order is documented as unspecified: compare as multisets
			ob := obsVector("AsVector", m.AsVector())
			sort.Slice(ob.cells, func(i, j int) bool { return ob.cells[i].v < ob.cells[j].v })
			for i := range ob.cells {
				ob.cells[i].d = nil
			}
			return ob
		}},
		{"String", true, func(m ad.Matrix) obs { return obs{kind: "String", str: fmt.Sprint(m)} }},
		{"Table", true, func(m ad.Matrix) obs { return obs{kind: "Table", str: m.Table()} }},
		{"CloneMatrix", true, func(m ad.Matrix) obs { return obsMatrix("Clone", m.CloneMatrix()) }},
		{"T-read", true, func(m ad.Matrix) obs { return obsMatrix("T", m.T()) }},
		{"Equals", true, func(m ad.Matrix) obs {
			same := mkMatrix(e, o.sa, h.rows, h.cols, valuesOf(m))
			return obs{kind: "Equals", err: !m.Equals(same, 1e-12)}
		}},
		{"EQUALS", !w.sparse, func(m ad.Matrix) obs {
			same := mkMatrix(e, false, h.rows, h.cols, valuesOf(m))
			return obs{kind: "EQUALS", str: reflectBool(m, "EQUALS", same, 1e-12)}
		}},
		{"IsSymmetric", true, func(m ad.Matrix) obs { return obs{kind: "IsSymmetric", err: m.IsSymmetric(1e-12)} }},
		{"Reduce", true, func(m ad.Matrix) obs {
			// a maximum, not a sum: exact whatever the order of the traversal
			// (sparse storage visits its entries in an order no seed controls)
			s := m.Reduce(func(r ad.Scalar, x ad.ConstScalar) ad.Scalar {
				r.SetFloat64(math.Max(r.GetFloat64(), x.GetFloat64()))
				return r
			}, ad.NewScalar(ad.Float64Type, math.Inf(-1)))
			return obs{kind: "Reduce", cells: []cellObs{{v: s.GetFloat64()}}}
		}},
		{"operand-of-MdotM", nonempty, func(m ad.Matrix) obs {
			b := mkMatrix(e, o.sb, h.cols, o.k, cycle(o.b, h.cols*o.k))
			r := ad.NullDenseMatrix(e.t, h.rows, o.k)
			r.MdotM(m, b)
			return obsMatrix("MdotM(view,b)", r)
		}},
		{"operand-of-MdotM-right", nonempty, func(m ad.Matrix) obs {
			a := mkMatrix(e, o.sa, o.k, h.rows, cycle(o.a, o.k*h.rows))
			var r ad.Matrix
			if o.sb {
				r = ad.NullSparseMatrix(e.t, o.k, h.cols)
			} else {
				r = ad.NullDenseMatrix(e.t, o.k, h.cols)
			}
			r.MdotM(a, m)
			return obsMatrix("MdotM(a,view)", r)
		}},
		{"operand-of-MdotV", nonempty, func(m ad.Matrix) obs {
			v := mkVector(e, o.sb, cycle(o.b, h.cols))
			r := ad.NullDenseVector(e.t, h.rows)
			r.MdotV(m, v)
			return obsVector("MdotV(view,v)", r)
		}},
		{"operand-of-VdotM", nonempty, func(m ad.Matrix) obs {
			v := mkVector(e, o.sa, cycle(o.a, h.rows))
			r := ad.NullDenseVector(e.t, h.cols)
			r.VdotM(v, m)
			return obsVector("VdotM(v,view)", r)
		}},
		{"operand-of-MDOTM", !w.sparse && nonempty, func(m ad.Matrix) obs {
			b := mkMatrix(e, false, h.cols, o.k, cycle(o.b, h.cols*o.k))
			r := ad.NullDenseMatrix(e.t, h.rows, o.k)
			if !typedCall(r, "MDOTM", m, b) {
				r.MdotM(m, b)
			}
			return obsMatrix("MDOTM(view,b)", r)
		}},
		{"operand-of-MDOTM-right", !w.sparse && nonempty, func(m ad.Matrix) obs {
			a := mkMatrix(e, false, o.k, h.rows, cycle(o.a, o.k*h.rows))
			r := ad.NullDenseMatrix(e.t, o.k, h.cols)
			if !typedCall(r, "MDOTM", a, m) {
				r.MdotM(a, m)
			}
			return obsMatrix("MDOTM(a,view)", r)
		}},
		{"operand-of-MDOTV", !w.sparse && nonempty, func(m ad.Matrix) obs {
			v := mkVector(e, false, cycle(o.b, h.cols))
			r := ad.NullDenseVector(e.t, h.rows)
			if !typedCall(r, "MDOTV", m, v) {
				r.MdotV(m, v)
			}
			return obsVector("MDOTV(view,v)", r)
		}},
		{"operand-of-VDOTM", !w.sparse && nonempty, func(m ad.Matrix) obs {
			v := mkVector(e, false, cycle(o.a, h.rows))
			r := ad.NullDenseVector(e.t, h.cols)
			if !typedCall(r, "VDOTM", v, m) {
				r.VdotM(v, m)
			}
			return obsVector("VDOTM(v,view)", r)
		}},
		{"operand-of-MMULM", !w.sparse, func(m ad.Matrix) obs {
			r := mkMatrix(e, false, h.rows, h.cols, o.a)
			b := mkMatrix(e, false, h.rows, h.cols, o.b)
			if !typedCall(r, "MMULM", b, m) {
				r.MmulM(b, m)
			}
			return obsMatrix("MMULM(b,view)", r)
		}},
		{"operand-of-MsubM", true, func(m ad.Matrix) obs {
			r := mkMatrix(e, o.sa, h.rows, h.cols, o.a)
			r.MsubM(mkMatrix(e, o.sb, h.rows, h.cols, o.b), m)
			return obsMatrix("MsubM(b,view)", r)
		}},
		{"JSON-roundtrip", true, func(m ad.Matrix) obs {
			b, err := m.MarshalJSON()
			if err != nil {
				return obs{kind: "json", err: true}
			}
			var r ad.Matrix
			if w.sparse {
				r = ad.NullSparseMatrix(e.t, 0, 0)
			} else {
				r = ad.NullDenseMatrix(e.t, 0, 0)
			}
			if err := r.(interface{ UnmarshalJSON([]byte) error }).UnmarshalJSON(b); err != nil {
				return obs{kind: "json", err: true, str: err.Error()}
			}
			// only the decoded object is compared: the encoding itself may
			// legitimately differ (e.g. a stored zero entry)
			return obsMatrix("json", r)
		}},
		{"Export-Import", true, func(m ad.Matrix) obs {
			if w.tmpdir == "" {
				w.tmpdir, _ = os.MkdirTemp("", "verif-c10-")
			}
			fn := filepath.Join(w.tmpdir, "m.table")
			if err := m.Export(fn); err != nil {
				return obs{kind: "export", err: true}
			}
			var r ad.Matrix
			if w.sparse {
				r = ad.NullSparseMatrix(e.t, 0, 0)
			} else {
				r = ad.NullDenseMatrix(e.t, 0, 0)
			}
			if err := r.(interface{ Import(string) error }).Import(fn); err != nil {
				return obs{kind: "export", err: true, str: err.Error()}
			}
			ob := obsMatrix("export", r)
			for i := range ob.cells {
				ob.cells[i].d = nil
			}
			return ob
		}},
	}
	cands := []rfun{}
	for _, f := range ops {
		if f.ok {
			cands = append(cands, f)
		}
	}
	f := cands[t.Choose(len(cands))]
	if h.m == nil {
		// const handles expose the read-only interface only
		w.constRead(h, o)
		return
	}
	w.c.Logf("%s.%s [%s] vs deep copy  b=%s idx=(%d,%d) k=%d", h.name, f.name, h.kinds, fmtVals(o.b), o.i1, o.j1, o.k)
	w.differential(h, f.name, f.f, false)
}

func valuesOf(m ad.ConstMatrix) []float64 {
	r, c := m.Dims()
	v := make([]float64, 0, r*c)
	for i := 0; i < r; i++ {
		for j := 0; j < c; j++ {
			v = append(v, m.Float64At(i, j))
		}
	}
	return v
}

// constRead exercises the read-only interface of ConstSlice handles against
// the model directly.
func (w *vWorld) constRead(h *vHandle, o operands) {
	w.c.Logf("%s: const reads [%s]", h.name, h.kinds)
	w.viewOps++
	want := make([]float64, 0, h.rows*h.cols)
	for i := 0; i < h.rows; i++ {
		for j := 0; j < h.cols; j++ {
			want = append(want, w.st[h.at(i, j)])
		}
	}
	got := []float64{}
	pos := []int{}
	w.guard("ConstIterator", func() {
		n := 0
		for it := h.cm.ConstIterator(); it.Ok(); it.Next() {
			i, j := it.Index()
			pos = append(pos, i*1000+j)
			got = append(got, it.GetConst().GetFloat64())
			if n++; n > 64 {
				break
			}
		}
	})
	wp, wv := []int{}, []float64{}
	root := w.hs[0]
	for i := 0; i < h.rows; i++ {
		for j := 0; j < h.cols; j++ {
			// an element is visited iff it is not null: non-zero value, or
			// (real types) a non-zero derivative; read that from the root
			k := h.at(i, j)
			rc := readCell(root.cm.ConstAt(k/w.C, k%w.C))
			nonnull := rc.v != 0
			for _, d := range rc.d {
				if d != 0 {
					nonnull = true
				}
			}
			if x := want[i*h.cols+j]; nonnull {
				wp = append(wp, i*1000+j)
				wv = append(wv, x)
			}
		}
	}
	if fmt.Sprint(pos) != fmt.Sprint(wp) || fmt.Sprint(got) != fmt.Sprint(wv) {
		w.fail("addressing", "ConstIterator|wrong-elements", "ConstIterator on %s [%s] visited positions %v values %v; the view denotes non-zero positions %v values %v", h.name, h.kinds, pos, got, wp, wv)
	}
	if h.rows > 0 && h.cols > 0 {
		var row ad.ConstVector
		w.guard("ConstRow", func() { row = h.cm.ConstRow(o.i1) })
		for j := 0; j < h.cols; j++ {
			var x float64
			w.guard("ConstRow.Float64At", func() { x = row.Float64At(j) })
			if x != want[o.i1*h.cols+j] {
				w.fail("addressing", "ConstRow|wrong-elements", "ConstRow(%d) of %s [%s] element %d = %g, the view denotes %g", o.i1, h.name, h.kinds, j, x, want[o.i1*h.cols+j])
			}
		}
	}
	w.guard("String", func() { _ = fmt.Sprint(h.cm) })
}

/* invariant after every step ---------------------------------------------------------------- */

func (w *vWorld) checkAll(when string) {
	hh := hashVals(w.st)
	for _, h := range w.hs {
		var r, c int
		w.guard("Dims", func() { r, c = h.cm.Dims() })
		if r != h.rows || c != h.cols {
			w.fail("addressing", "Dims", "%s [%s]: Dims()=(%d,%d), the view is %dx%d", h.name, h.kinds, r, c, h.rows, h.cols)
		}
		for i := 0; i < h.rows; i++ {
			for j := 0; j < h.cols; j++ {
				var x, y float64
				w.guard("Float64At/ConstAt", func() {
					x = h.cm.Float64At(i, j)
					y = h.cm.ConstAt(i, j).GetFloat64()
				})
				if want := w.st[h.at(i, j)]; x != want || y != want {
					w.fail("addressing", "read|wrong-element", "%s [%s]: element (%d,%d) reads %g/%g, the element it denotes holds %g (%s)", h.name, h.kinds, i, j, x, y, want, when)
				}
			}
		}
		hh = hh*1099511628211 ^ uint64(h.rows*31+h.cols) ^ uint64(len(h.kinds))<<20
	}
	// derivative agreement between every handle and the root (addressing of
	// the same scalar), only meaningful for the real element types
	if w.e.isReal() {
		root := w.hs[0]
		for _, h := range w.hs[1:] {
			if h.snapshot {
				continue
			}
			for i := 0; i < h.rows; i++ {
				for j := 0; j < h.cols; j++ {
					k := h.at(i, j)
					var a, b cellObs
					w.guard("ConstAt", func() {
						a = readCell(h.cm.ConstAt(i, j))
						b = readCell(root.cm.ConstAt(k/w.C, k%w.C))
					})
					if !a.equal(b) {
						w.fail("addressing", "read|wrong-derivative", "%s [%s]: element (%d,%d) = %s but the root element it denotes is %s", h.name, h.kinds, i, j, a, b)
					}
				}
			}
		}
	}
	w.c.State(hh)
}

/* probes of recorded findings ------------------------------------------------------ */

// ProbeSparseT: a sparse T() shares only the scalars that exist at the time of
// the call; an element created through the transpose never reaches the parent.
func ProbeSparseT(c *core.Ctx) {
	z := ad.NullSparseMatrix(ad.Float64Type, 2, 2)
	zt := z.T()
	zt.At(0, 1).SetFloat64(7)
	c.Logf("z = NullSparseMatrix(2,2); zt = z.T(); zt.At(0,1) <- 7; z.Float64At(1,0) = %g", z.Float64At(1, 0))
	if z.Float64At(1, 0) != 7 {
		c.Fail("addressing", "sparseMatrix|T|write-not-visible-in-parent", "write through sparse T() at (0,1) is not visible at (1,0) of the parent: reads %g", z.Float64At(1, 0))
	}
}

// copyAccessorWrite: Row, Col, Diag and CloneMatrix are copying accessors; a
// write to (or a change of the derivative state of) their result must never
// show in any handle.
func (w *vWorld) copyAccessorWrite() {
	t := w.c.Tape
	h := w.pickHandle(true)
	if h.rows == 0 || h.cols == 0 {
		return
	}
	root := w.hs[0]
	before := obsMatrix("root", root.cm)
	i, j, x := t.Choose(h.rows), t.Choose(h.cols), nzval(t, w.e)
	kind := t.Choose(4)
	if kind == 2 && h.rows != h.cols {
		kind = 0
	}
	name := []string{"Row", "Col", "Diag", "CloneMatrix"}[kind]
	w.c.Logf("write into %s.%s(...) result [%s]", h.name, name, h.kinds)
	w.guard(name+"+write", func() {
		switch kind {
		case 0:
			v := h.m.Row(i)
			v.At(j).SetFloat64(v.At(j).GetFloat64() + x)
			v.Reset()
		case 1:
			v := h.m.Col(j)
			v.At(i).SetFloat64(v.At(i).GetFloat64() + x)
			if mv, ok := v.(ad.MagicVector); ok {
				mv.Variables(1)
			}
		case 2:
			v := h.m.Diag()
			v.At(i).SetFloat64(v.At(i).GetFloat64() + x)
			if mv, ok := v.(ad.MagicVector); ok {
				mv.Variables(1)
			}
		case 3:
			cl := h.m.CloneMatrix()
			cl.At(i, j).SetFloat64(cl.At(i, j).GetFloat64() + x)
			cl.Reset()
		}
	})
	if h.kinds != "root" {
		w.viewOps++
	}
	w.c.Count("copy-accessor-write:" + name)
	after := obsMatrix("root", root.cm)
	if !before.equal(after) {
		w.fail("copy-independence", name+"|write-through", "writing to the result of %s.%s [%s] changed the parent: root before %v, after %v", h.name, name, h.kinds, before.cells, after.cells)
	}
}
