package world

import (
	"fmt"
	"math"

	ad "github.com/pbenner/autodiff"
	"github.com/pbenner/autodiff/algorithm/adam"
	"github.com/pbenner/autodiff/algorithm/backSubstitution"
	"github.com/pbenner/autodiff/algorithm/bfgs"
	"github.com/pbenner/autodiff/algorithm/blahut"
	"github.com/pbenner/autodiff/algorithm/cholesky"
	"github.com/pbenner/autodiff/algorithm/determinant"
	"github.com/pbenner/autodiff/algorithm/eigensystem"
	"github.com/pbenner/autodiff/algorithm/gradientDescent"
	"github.com/pbenner/autodiff/algorithm/gramSchmidt"
	"github.com/pbenner/autodiff/algorithm/hessenbergReduction"
	"github.com/pbenner/autodiff/algorithm/householderBidiagonalization"
	"github.com/pbenner/autodiff/algorithm/householderTridiagonalization"
	"github.com/pbenner/autodiff/algorithm/matrixInverse"
	"github.com/pbenner/autodiff/algorithm/msqrt"
	"github.com/pbenner/autodiff/algorithm/msqrtInv"
	"github.com/pbenner/autodiff/algorithm/newton"
	"github.com/pbenner/autodiff/algorithm/qrAlgorithm"
	"github.com/pbenner/autodiff/algorithm/rprop"
	"github.com/pbenner/autodiff/algorithm/svd"
	"verif/sim/core"
	"verif/sim/ticks"
)

/* C12, scenario "algorithm-inputs" ---------------------------------------------------
 *
 * Every algorithm entry point is called without in-situ buffers, or with an
 * InSitu object whose buffers are nil and which is then re-used for a second
 * call on a different input.  The caller's objects (matrices, right hand
 * sides, starting points, channels) are snapshotted before and compared after
 * every call, including the inputs of earlier calls of the same session.
 * The step clock of engine E bounds every call, so a non-terminating input
 * (a C20 matter) ends the run instead of hanging it.
 */

type algInput struct {
	name string
	m    ad.Matrix
	v    ad.Vector
	snap obs
}

func (a *algInput) observe() obs {
	if a.m != nil {
		return obsMatrix(a.name, a.m)
	}
	return obsVector(a.name, a.v)
}

type algWorld struct {
	c      *core.Ctx
	inputs []*algInput
	alg    string
	real   bool
}

func (w *algWorld) keep(name string, m ad.Matrix, v ad.Vector) {
	in := &algInput{name: fmt.Sprintf("%s#%d", name, len(w.inputs)), m: m, v: v}
	in.snap = in.observe()
	w.inputs = append(w.inputs, in)
}

func (w *algWorld) check(after string) {
	for _, in := range w.inputs {
		now := in.observe()
		if !now.equal(in.snap) {
			w.c.Fail("input-unchanged", w.alg+"|input-modified", "%s: the caller's %s was modified by the call (%s): before %s, after %s", w.alg, in.name, after, in.snap, now)
		}
	}
}

func (w *algWorld) newMatrix(vals []float64, r, c int) ad.Matrix {
	if w.real {
		return ad.NewDenseReal64Matrix(vals, r, c)
	}
	return ad.NewDenseFloat64Matrix(vals, r, c)
}

func (w *algWorld) newVector(vals []float64) ad.Vector {
	if w.real {
		return ad.NewDenseReal64Vector(vals)
	}
	return ad.NewDenseFloat64Vector(vals)
}

func genMatrix(t *core.Tape, r, c int) []float64 {
	m := make([]float64, r*c)
	for i := range m {
		m[i] = float64(t.Range(-6, 6)) / 2
	}
	return m
}

// spd returns B B^T + n I (symmetric positive definite).
func spd(t *core.Tape, n int) []float64 {
	b := genMatrix(t, n, n)
	a := make([]float64, n*n)
	for i := 0; i < n; i++ {
		for j := 0; j < n; j++ {
			for k := 0; k < n; k++ {
				a[i*n+j] += b[i*n+k] * b[j*n+k]
			}
			if i == j {
				a[i*n+j] += float64(n)
			}
		}
	}
	return a
}

func symm(t *core.Tape, n int) []float64 {
	a := genMatrix(t, n, n)
	for i := 0; i < n; i++ {
		for j := 0; j < i; j++ {
			a[i*n+j] = a[j*n+i]
		}
	}
	return a
}

func upper(t *core.Tape, n int) []float64 {
	a := genMatrix(t, n, n)
	for i := 0; i < n; i++ {
		for j := 0; j < i; j++ {
			a[i*n+j] = 0
		}
		if a[i*n+i] == 0 {
			a[i*n+i] = 1
		}
	}
	return a
}

var algBudget = map[string]int{}

func RunAlgorithmInputs(c *core.Ctx) {
	t := c.Tape
	w := &algWorld{c: c, real: t.Bool(1, 3)}
	algs := []string{"qrAlgorithm", "svd", "matrixInverse", "msqrt", "msqrtInv", "cholesky", "determinant", "eigensystem",
		"gramSchmidt", "hessenbergReduction", "householderBidiagonalization", "householderTridiagonalization", "backSubstitution",
		"bfgs", "rprop", "newton.RunRoot", "newton.RunCrit", "newton.RunMin", "gradientDescent", "adam", "blahut"}
	w.alg = algs[t.Choose(len(algs))]
	n := t.Range(1, 4)
	calls := t.Range(1, 3)
	reuse := t.Bool(1, 2)
	c.Logf("%s: %d call(s), n=%d, element type real64=%v, in-situ object reused=%v", w.alg, calls, n, w.real, reuse)
	// in-situ objects with nil buffers, shared by all calls of the session
	qrIS, svdIS, invIS, cholIS := &qrAlgorithm.InSitu{}, &svd.InSitu{}, &matrixInverse.InSitu{}, &cholesky.InSitu{}
	eigIS, gsIS, hessIS := &eigensystem.InSitu{}, &gramSchmidt.InSitu{}, &hessenbergReduction.InSitu{}
	bidIS, triIS, bsIS, detIS := &householderBidiagonalization.InSitu{}, &householderTridiagonalization.InSitu{}, &backSubstitution.InSitu{}, &determinant.InSitu{}
	mExtra := t.Choose(2)
	aborted := false
	for call := 0; call < calls && !aborted; call++ {
		c.Steps++
		opt := t.Choose(4)
		var run func()
		args := func(is interface{}, more ...interface{}) []interface{} {
			if reuse {
				return append(more, is)
			}
			return more
		}
		switch w.alg {
		case "qrAlgorithm":
			sym := opt&1 == 1
			var a ad.Matrix
			if sym {
				a = w.newMatrix(symm(t, n), n, n)
			} else {
				a = w.newMatrix(genMatrix(t, n, n), n, n)
			}
			w.keep("a", a, nil)
			run = func() {
				qrAlgorithm.Run(a, args(qrIS, qrAlgorithm.ComputeU{Value: opt&2 == 2}, qrAlgorithm.Symmetric{Value: sym})...)
			}
		case "svd":
			m := n + mExtra
			a := w.newMatrix(genMatrix(t, m, n), m, n)
			w.keep("a", a, nil)
			run = func() { svd.Run(a, args(svdIS, svd.ComputeU{Value: opt&1 == 1}, svd.ComputeV{Value: opt&2 == 2})...) }
		case "matrixInverse":
			pd := opt&1 == 1
			var a ad.Matrix
			if pd {
				a = w.newMatrix(spd(t, n), n, n)
			} else {
				a = w.newMatrix(genMatrix(t, n, n), n, n)
			}
			w.keep("a", a, nil)
			run = func() { matrixInverse.Run(a, args(invIS, matrixInverse.PositiveDefinite{Value: pd})...) }
		case "msqrt":
			a := w.newMatrix(spd(t, n), n, n)
			w.keep("a", a, nil)
			run = func() { msqrt.Run(a) }
		case "msqrtInv":
			a := w.newMatrix(spd(t, n), n, n)
			w.keep("a", a, nil)
			run = func() { msqrtInv.Run(a) }
		case "cholesky":
			a := w.newMatrix(spd(t, n), n, n)
			w.keep("a", a, nil)
			run = func() { cholesky.Run(a, args(cholIS, cholesky.LDL{Value: opt&1 == 1}, cholesky.ForcePD{Value: opt&2 == 2})...) }
		case "determinant":
			pd := opt&1 == 1
			var a ad.Matrix
			if pd {
				a = w.newMatrix(spd(t, n), n, n)
			} else {
				a = w.newMatrix(genMatrix(t, n, n), n, n)
			}
			w.keep("a", a, nil)
			run = func() {
				determinant.Run(a, args(detIS, determinant.PositiveDefinite{Value: pd}, determinant.LogScale{Value: opt&2 == 2 && pd})...)
			}
		case "eigensystem":
			a := w.newMatrix(symm(t, n), n, n)
			w.keep("a", a, nil)
			run = func() {
				eigensystem.Run(a, args(eigIS, eigensystem.Symmetric{Value: opt&1 == 1}, eigensystem.ComputeEigenvectors{Value: opt&2 == 2})...)
			}
		case "gramSchmidt":
			a := w.newMatrix(genMatrix(t, n, n), n, n)
			w.keep("a", a, nil)
			run = func() { gramSchmidt.Run(a, args(gsIS)...) }
		case "hessenbergReduction":
			a := w.newMatrix(genMatrix(t, n, n), n, n)
			w.keep("a", a, nil)
			run = func() { hessenbergReduction.Run(a, args(hessIS, hessenbergReduction.ComputeU{Value: opt&1 == 1})...) }
		case "householderBidiagonalization":
			m := n + mExtra
			a := w.newMatrix(genMatrix(t, m, n), m, n)
			w.keep("a", a, nil)
			run = func() {
				householderBidiagonalization.Run(a, args(bidIS, householderBidiagonalization.ComputeU{Value: opt&1 == 1}, householderBidiagonalization.ComputeV{Value: opt&2 == 2})...)
			}
		case "householderTridiagonalization":
			a := w.newMatrix(symm(t, n), n, n)
			w.keep("a", a, nil)
			run = func() {
				householderTridiagonalization.Run(a, args(triIS, householderTridiagonalization.ComputeU{Value: opt&1 == 1})...)
			}
		case "backSubstitution":
			a := w.newMatrix(upper(t, n), n, n)
			b := w.newVector(genMatrix(t, n, 1))
			w.keep("A", a, nil)
			w.keep("b", nil, b)
			run = func() { backSubstitution.Run(a, b, args(bsIS)...) }
		default:
			run = w.optimizer(n, opt)
		}
		var pv interface{}
		over, _ := ticks.Guard(nil, 3000, func() { pv, _ = core.Try(run) })
		after := "returned"
		if over != nil {
			after = "aborted by the step clock at " + over.Site
			w.c.Count("aborted-by-step-clock")
			aborted = true
		} else if pv != nil {
			after = fmt.Sprintf("panicked: %v", pv)
			w.c.Count("call-panicked")
		}
		c.Logf("call %d %s", call, after)
		w.check(after)
		c.StateStr(fmt.Sprintf("%s|%d|%v|%d|%s", w.alg, opt, reuse, n, after[:4]))
	}
	c.Nontriv = true
	c.Sample = map[string]interface{}{"algorithm": w.alg, "calls": calls, "n": n, "reuse_insitu": reuse, "real64": w.real}
}

// optimizer builds one optimizer call on a convex quadratic; the starting
// point (and for blahut the channel) are the caller's objects.
func (w *algWorld) optimizer(n, opt int) func() {
	t := w.c.Tape
	q := spd(t, n)
	xs := genMatrix(t, n, 1)
	x0 := w.newVector(genMatrix(t, n, 1))
	w.keep("x0", nil, x0)
	// f(x) = 1/2 (x-xs)' Q (x-xs), evaluated with the library's AD scalars
	f := func(x ad.ConstVector) (ad.MagicScalar, error) {
		r := ad.NewReal64(0)
		tmp := ad.NewReal64(0)
		for i := 0; i < n; i++ {
			for j := 0; j < n; j++ {
				di := ad.NewReal64(0)
				dj := ad.NewReal64(0)
				di.Sub(x.ConstAt(i), ad.ConstFloat64(xs[i]))
				dj.Sub(x.ConstAt(j), ad.ConstFloat64(xs[j]))
				tmp.Mul(di, dj)
				tmp.Mul(tmp, ad.ConstFloat64(0.5*q[i*n+j]))
				r.Add(r, tmp)
			}
		}
		return r, nil
	}
	grad := func(x ad.ConstVector) (ad.MagicVector, error) {
		g := ad.NullDenseReal64Vector(n)
		for i := 0; i < n; i++ {
			for j := 0; j < n; j++ {
				d := ad.NewReal64(0)
				d.Sub(x.ConstAt(j), ad.ConstFloat64(xs[j]))
				d.Mul(d, ad.ConstFloat64(q[i*n+j]))
				g.At(i).Add(g.At(i), d)
			}
		}
		return g, nil
	}
	maxIt := 40
	switch w.alg {
	case "bfgs":
		args := []interface{}{bfgs.Epsilon{Value: 1e-6}, bfgs.MaxIterations{Value: maxIt}}
		if t.Bool(1, 2) {
			// the caller's initial approximation of the Hessian (not the identity)
			// is an input like x0: bfgs has no in-situ option
			b0 := ad.NewDenseFloat64Matrix(spd(t, n), n, n)
			w.keep("Hessian.Value", b0, nil)
			args = append(args, bfgs.Hessian{Value: b0})
			w.c.Count("bfgs:caller-supplied-hessian")
		}
		return func() {
			bfgs.Run(func(x ad.ConstVector) (ad.MagicScalar, error) { return f(x) }, x0, args...)
		}
	case "rprop":
		return func() {
			rprop.Run(f, x0, 0.1, []float64{1.2, 0.5}, rprop.Epsilon{Value: 1e-6}, rprop.MaxIterations{Value: maxIt})
		}
	case "newton.RunRoot":
		return func() { newton.RunRoot(grad, x0, newton.Epsilon{Value: 1e-8}, newton.MaxIterations{Value: maxIt}) }
	case "newton.RunCrit":
		return func() { newton.RunCrit(f, x0, newton.Epsilon{Value: 1e-8}, newton.MaxIterations{Value: maxIt}) }
	case "newton.RunMin":
		return func() { newton.RunMin(f, x0, newton.Epsilon{Value: 1e-8}, newton.MaxIterations{Value: maxIt}) }
	case "gradientDescent":
		lmax := 0.0
		for i := 0; i < n; i++ {
			s := 0.0
			for j := 0; j < n; j++ {
				s += math.Abs(q[i*n+j])
			}
			if s > lmax {
				lmax = s
			}
		}
		return func() { gradientDescent.Run(f, x0, 1/lmax, gradientDescent.Epsilon{Value: 1e-3}) }
	case "adam":
		return func() { adam.Run(f, x0, adam.Epsilon{Value: 1e-4}, adam.MaxIterations{Value: maxIt}) }
	case "blahut":
		m := n + 1
		ch := make([]float64, n*m)
		for i := 0; i < n; i++ {
			s := 0.0
			for j := 0; j < m; j++ {
				ch[i*m+j] = float64(t.Range(1, 6))
				s += ch[i*m+j]
			}
			for j := 0; j < m; j++ {
				ch[i*m+j] /= s
			}
		}
		channel := w.newMatrix(ch, n, m)
		p := make([]float64, n)
		for i := range p {
			p[i] = 1 / float64(n)
		}
		pinit := w.newVector(p)
		w.keep("channel", channel, nil)
		w.keep("p_init", nil, pinit)
		return func() { blahut.Run(channel, pinit, 5+opt) }
	}
	return func() {}
}
