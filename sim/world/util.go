// Package world is engine B: the shared-storage world simulator for the
// container properties C10 (views), C11 (sparse coherence) and C12 (copy
// independence).  Actors are handles onto shared storage (root containers,
// views, clones, partially consumed iterators); the tape decides which handle
// acts next and what it does; after every step every live handle is compared
// with a plain reference model through the public read API only.
package world

import (
	"fmt"
	"math"
	"reflect"
	"sort"
	"strings"

	ad "github.com/pbenner/autodiff"
	"verif/sim/core"
)

type elemType struct {
	name string
	t    ad.ScalarType
	kind int // 0 int, 1 float32, 2 float64 (plain), 3 real32, 4 real64
	bits int
}

var elemTypes = []elemType{
	{"float64", ad.Float64Type, 2, 64},
	{"real64", ad.Real64Type, 4, 64},
	{"float32", ad.Float32Type, 1, 32},
	{"real32", ad.Real32Type, 3, 32},
	{"int", ad.IntType, 0, 64},
	{"int64", ad.Int64Type, 0, 64},
	{"int32", ad.Int32Type, 0, 32},
	{"int16", ad.Int16Type, 0, 16},
	{"int8", ad.Int8Type, 0, 8},
}

func (e elemType) isInt() bool  { return e.kind == 0 }
func (e elemType) isReal() bool { return e.kind >= 3 }

// norm maps an exactly computed value into the element type (wrap-around for
// integers, rounding for 32-bit floats) -- the arithmetic the library does in
// the native type.
func (e elemType) norm(x float64) float64 {
	switch e.kind {
	case 0:
		v := int64(x)
		switch e.bits {
		case 8:
			return float64(int8(v))
		case 16:
			return float64(int16(v))
		case 32:
			return float64(int32(v))
		}
		return float64(v)
	case 1, 3:
		return float64(float32(x))
	}
	return x
}

func pickType(t *core.Tape) elemType {
	return elemTypes[t.Pick([]int{4, 3, 1, 1, 1, 1, 1, 1, 1})]
}

// val draws a small value; zero is frequent (explicit zeros matter).
func val(t *core.Tape, e elemType) float64 {
	switch t.Pick([]int{3, 8, 1}) {
	case 0:
		return 0
	case 1:
		v := float64(t.Range(1, 4))
		if t.Bool(1, 2) {
			v = -v
		}
		return v
	default:
		if e.isInt() {
			return float64(t.Range(5, 9))
		}
		return float64(t.Range(1, 7)) / 2
	}
}

func nzval(t *core.Tape, e elemType) float64 {
	for i := 0; i < 8; i++ {
		if v := val(t, e); v != 0 {
			return v
		}
	}
	return 1
}

func fmtVals(v []float64) string {
	s := make([]string, len(v))
	for i, x := range v {
		s[i] = fmt.Sprintf("%g", x)
	}
	return "[" + strings.Join(s, " ") + "]"
}

func hashVals(v []float64) uint64 {
	h := uint64(1469598103934665603)
	for _, x := range v {
		h ^= math.Float64bits(x)
		h *= 1099511628211
	}
	h ^= uint64(len(v)) << 32
	return h
}

func sameVal(a, b float64) bool {
	if math.IsNaN(a) && math.IsNaN(b) {
		return true
	}
	return a == b
}

// mkVector builds a fresh operand vector (dense or sparse storage) holding m.
func mkVector(e elemType, sparse bool, m []float64) ad.Vector {
	var v ad.Vector
	if sparse {
		v = ad.NullSparseVector(e.t, len(m))
	} else {
		v = ad.NullDenseVector(e.t, len(m))
	}
	for i, x := range m {
		if x != 0 || !sparse {
			v.At(i).SetFloat64(x)
		}
	}
	return v
}

func mkMatrix(e elemType, sparse bool, r, c int, m []float64) ad.Matrix {
	var a ad.Matrix
	if sparse {
		a = ad.NullSparseMatrix(e.t, r, c)
	} else {
		a = ad.NullDenseMatrix(e.t, r, c)
	}
	for i := 0; i < r; i++ {
		for j := 0; j < c; j++ {
			if x := m[i*c+j]; x != 0 || !sparse {
				a.At(i, j).SetFloat64(x)
			}
		}
	}
	return a
}

func randVals(t *core.Tape, e elemType, n int) []float64 {
	m := make([]float64, n)
	for i := range m {
		m[i] = val(t, e)
	}
	return m
}

func randPerm(t *core.Tape, n int) []int {
	p := make([]int, n)
	for i := range p {
		p[i] = i
	}
	for i := n - 1; i > 0; i-- {
		j := t.Choose(i + 1)
		p[i], p[j] = p[j], p[i]
	}
	return p
}

func sortFloats(v []float64, reverse bool) {
	if reverse {
		sort.Sort(sort.Reverse(sort.Float64Slice(v)))
	} else {
		sort.Float64s(v)
	}
}

func storageName(sparse bool) string {
	if sparse {
		return "sparse"
	}
	return "dense"
}

// typedCall invokes the concrete-type variant of an operation (MADDM, VADDV,
// MDOTV, ...: methods of the concrete container types that take operands of the
// same concrete type) if the receiver has one and the operands have the types
// it wants.  It reports whether the call was made; a panic inside the method
// propagates as it is.
func typedCall(recv interface{}, name string, args ...interface{}) bool {
	m := reflect.ValueOf(recv).MethodByName(name)
	if !m.IsValid() || m.Type().NumIn() != len(args) || m.Type().IsVariadic() {
		return false
	}
	in := make([]reflect.Value, len(args))
	for i, a := range args {
		v := reflect.ValueOf(a)
		if !v.IsValid() || !v.Type().AssignableTo(m.Type().In(i)) {
			return false
		}
		in[i] = v
	}
	m.Call(in)
	return true
}

// nonzero replaces zeros (divisors)
func nonzero(v []float64) []float64 {
	r := append([]float64{}, v...)
	for i := range r {
		if r[i] == 0 {
			r[i] = 1
		}
	}
	return r
}

// reflectBool calls a concrete-type predicate (EQUALS) by name and renders its
// result; "n/a" if the receiver has no such method for these operand types.
func reflectBool(recv interface{}, name string, args ...interface{}) string {
	m := reflect.ValueOf(recv).MethodByName(name)
	if !m.IsValid() || m.Type().NumIn() != len(args) || m.Type().IsVariadic() || m.Type().NumOut() != 1 {
		return "n/a"
	}
	in := make([]reflect.Value, len(args))
	for i, a := range args {
		v := reflect.ValueOf(a)
		if !v.IsValid() || !v.Type().AssignableTo(m.Type().In(i)) {
			return "n/a"
		}
		in[i] = v
	}
	return fmt.Sprint(m.Call(in)[0].Interface())
}
