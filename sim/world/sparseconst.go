package world

import (
	"slices"
	"fmt"

	ad "github.com/pbenner/autodiff"
	"verif/sim/core"
	"verif/sim/ticks"
)

/* read-only sparse vectors -------------------------------------------------------------------
 *
 * SparseConst<T>Vector has no mutating operations, so its "history" is the
 * history of read handles: lookups (which build an index map lazily),
 * iterators started anywhere, nested read-only slices and joint iteration,
 * interleaved by the tape on one vector.  Everything is compared with a dense
 * model.
 */

func RunSparseConst(c *core.Ctx) {
	t := c.Tape
	n := t.Pick([]int{1, 2, 3, 3, 3, 2, 2, 1, 1}) // 0..8
	m := make([]float64, n)
	idx, val := []int{}, []float64{}
	order := make([]int, n)
	for i := range order {
		order[i] = i
	}
	// the constructor sorts: hand the positions over in a drawn order
	for i := n - 1; i > 0; i-- {
		j := t.Choose(i + 1)
		order[i], order[j] = order[j], order[i]
	}
	for _, i := range order {
		switch t.Pick([]int{3, 3, 1}) {
		case 1:
			m[i] = float64(t.Range(1, 6))
			idx, val = append(idx, i), append(val, m[i])
		case 2:
			// an explicit zero: dropped by the constructor
			idx, val = append(idx, i), append(val, 0)
		}
	}
	fail := func(op, failure, format string, args ...interface{}) {
		c.Fail("model", "SparseConstVector|"+op+"|"+failure, format, args...)
	}
	et := t.Choose(7)
	etName := []string{"float64", "float32", "int", "int64", "int32", "int16", "int8"}[et]
	// built by the constructor, or converted from a dense vector (zeros and,
	// for the integer types, fractions that truncate to zero must not become
	// stored entries)
	converted := t.Bool(1, 3)
	var dense []float64
	if converted {
		dense = append([]float64(nil), m...)
		for i := range dense {
			if dense[i] == 0 && t.Bool(1, 2) {
				dense[i] = 0.25
				if et <= 1 {
					m[i] = 0.25 // the float types keep it
				}
			}
		}
		c.Logf("v = AsSparseConst<%s>Vector(dense %v); model %v", etName, dense, m)
	} else {
		c.Logf("v = NewSparseConst<%s>Vector(%v, %v, %d); model %v", etName, idx, val, n, m)
	}
	var v ad.ConstVector
	var caller callerSlices
	if pv, site := core.Try(func() {
		if converted {
			v = asSparseConst(et, ad.NewDenseFloat64Vector(dense))
		} else {
			v, caller = newSparseConstCaller(et, idx, val, n)
		}
	}); pv != nil {
		c.Fail("no-panic", "SparseConstVector|panic-in:constructor|"+core.PanicClass(pv), "constructor panicked in %s: %v", site, pv)
	}
	if caller.changed != nil {
		// the copying constructor (the sharing one is called Unsafe...) leaves
		// the slices it was given as they are, and the caller may go on using
		// them: the vector is a read-only object of its own
		if d := caller.changed(); d != "" {
			c.Fail("caller-input", "SparseConstVector|constructor|caller-slices-changed", "NewSparseConst<%s>Vector changed the slices it was given: %s", etName, d)
		}
		if n > 0 && t.Bool(1, 2) {
			caller.poke()
			c.Logf("the caller overwrites the slices it had handed to the constructor")
			c.Count("probe:caller-reuses-its-slices")
		}
	}
	type handle struct {
		v   ad.ConstVector
		off int
		n   int
	}
	hs := []handle{{v, 0, n}}
	nops := t.Range(3, 30)
	for k := 0; k < nops; k++ {
		c.Steps++
		h := hs[t.Choose(len(hs))]
		switch t.Choose(6) {
		case 0: // point reads (before and after the lazy index exists)
			if h.n == 0 {
				continue
			}
			i := t.Choose(h.n)
			var x float64
			how := t.Choose(3)
			if pv, site := core.Try(func() {
				switch how {
				case 0:
					x = h.v.Float64At(i)
				case 1:
					x = h.v.ConstAt(i).GetFloat64()
				default:
					x = float64(h.v.IntAt(i))
				}
			}); pv != nil {
				c.Fail("no-panic", "SparseConstVector|panic-in:read|"+core.PanicClass(pv), "reading position %d of a handle [%d,%d) panicked in %s: %v", i, h.off, h.off+h.n, site, pv)
			}
			c.Logf("read %d of [%d,%d) -> %g", i, h.off, h.off+h.n, x)
			want := m[h.off+i]
			if how == 2 {
				want = float64(int(want)) // IntAt truncates
			}
			if x != want {
				fail("read", "wrong-value", "position %d of the handle [%d,%d) reads %g, the model says %g", i, h.off, h.off+h.n, x, want)
			}
		case 1: // Dim
			if d := h.v.Dim(); d != h.n {
				fail("Dim", "wrong-dimension", "Dim() = %d, the handle covers [%d,%d)", d, h.off, h.off+h.n)
			}
		case 2, 3: // iteration from a lower bound (0 = from the start)
			from := 0
			if h.n > 0 || t.Bool(1, 2) {
				from = t.Choose(h.n + 1)
			}
			var got [][2]float64
			if pv, site := core.Try(func() {
				it := h.v.ConstIteratorFrom(from)
				if from == 0 && t.Bool(1, 2) {
					it = h.v.ConstIterator()
				}
				for g := 0; it.Ok() && g < 64; it.Next() {
					got = append(got, [2]float64{float64(it.Index()), it.GetConst().GetFloat64()})
					g++
				}
			}); pv != nil {
				c.Fail("no-panic", "SparseConstVector|panic-in:iteration|"+core.PanicClass(pv), "iterating from %d panicked in %s: %v", from, site, pv)
			}
			var want [][2]float64
			for i := from; i < h.n; i++ {
				if m[h.off+i] != 0 {
					want = append(want, [2]float64{float64(i), m[h.off+i]})
				}
			}
			c.Logf("iterate [%d,%d) from %d -> %v", h.off, h.off+h.n, from, got)
			if fmt.Sprint(got) != fmt.Sprint(want) {
				fail("ConstIteratorFrom", "wrong-elements", "iterating the handle [%d,%d) from position %d visits %v, the non-zero elements there are %v", h.off, h.off+h.n, from, got, want)
			}
		case 4: // a nested read-only slice becomes a new handle
			if len(hs) >= 4 {
				continue
			}
			a := t.Choose(h.n + 1)
			b := a + t.Choose(h.n-a+1)
			var s ad.ConstVector
			if pv, site := core.Try(func() { s = h.v.ConstSlice(a, b) }); pv != nil {
				c.Fail("no-panic", "SparseConstVector|panic-in:ConstSlice|"+core.PanicClass(pv), "ConstSlice(%d,%d) of a handle of dimension %d panicked in %s: %v", a, b, h.n, site, pv)
			}
			c.Logf("handle %d = ConstSlice(%d,%d) of [%d,%d)", len(hs), a, b, h.off, h.off+h.n)
			hs = append(hs, handle{s, h.off + a, b - a})
		default: // joint iteration with a dense partner
			p := make([]float64, h.n)
			for i := range p {
				if t.Bool(1, 2) {
					p[i] = float64(t.Range(1, 4))
				}
			}
			var got [][3]float64
			var pv interface{}
			var site string
			over, _ := ticks.Guard(map[string]int{"sparseconst.joint": 4*n + 16}, 100000, func() {
				pv, site = core.Try(func() {
					for it, g := h.v.ConstJointIterator(ad.NewDenseFloat64Vector(p)), 0; it.Ok() && g < 64; it.Next() {
						a, b := it.GetConst()
						x, y := 0.0, 0.0
						if a != nil {
							x = a.GetFloat64()
						}
						if b != nil {
							y = b.GetFloat64()
						}
						got = append(got, [3]float64{float64(it.Index()), x, y})
						g++
					}
				})
			})
			if over != nil {
				c.Fail("step-clock", "SparseConstVector|joint-iteration|budget-exceeded", "joint iteration of a read-only sparse vector of dimension %d was still skipping positions after %d steps", n, over.Ticks)
			}
			if pv != nil {
				c.Fail("no-panic", "SparseConstVector|panic-in:joint-iteration|"+core.PanicClass(pv), "joint iteration panicked in %s: %v", site, pv)
			}
			var want [][3]float64
			for i := 0; i < h.n; i++ {
				if m[h.off+i] != 0 || p[i] != 0 {
					want = append(want, [3]float64{float64(i), m[h.off+i], p[i]})
				}
			}
			if fmt.Sprint(got) != fmt.Sprint(want) {
				fail("ConstJointIterator", "wrong-elements", "joint iteration of the handle [%d,%d) with the dense vector %v visits %v, expected %v", h.off, h.off+h.n, p, got, want)
			}
		}
		c.StateStr(fmt.Sprint(k, len(hs), h.off, h.n))
	}
	c.Nontriv = n >= 2 && len(idx) >= 1
	c.Sample = map[string]interface{}{"container": "SparseConst<" + etName + ">Vector", "dim": n, "entries": len(idx), "ops": nops, "handles": len(hs)}
}

// callerSlices: what the caller handed to the (copying) constructor.  changed()
// reports whether the constructor altered it; poke() is the caller re-using its
// own slices afterwards, which must not be visible through the vector.
type callerSlices struct {
	changed func() string
	poke    func()
}

type constElem interface {
	~int | ~int8 | ~int16 | ~int32 | ~int64 | ~float32 | ~float64
}

func mkConst[T constElem](idx []int, val []float64, n int, ctor func([]int, []T, int) ad.ConstVector) (ad.ConstVector, callerSlices) {
	ix := append([]int(nil), idx...)
	v := make([]T, len(val))
	for i := range v {
		v[i] = T(val[i])
	}
	ix0, v0 := append([]int(nil), ix...), append([]T(nil), v...)
	r := ctor(ix, v, n)
	return r, callerSlices{
		changed: func() string {
			if !slices.Equal(ix, ix0) || !slices.Equal(v, v0) {
				return fmt.Sprintf("indices %v -> %v, values %v -> %v", ix0, ix, v0, v)
			}
			return ""
		},
		poke: func() {
			for i := range ix {
				ix[i] = (ix[i] + 1) % n
			}
			for i := range v {
				v[i] += 1
			}
		},
	}
}

func newSparseConst(et int, idx []int, val []float64, n int) ad.ConstVector {
	v, _ := newSparseConstCaller(et, idx, val, n)
	return v
}

func newSparseConstCaller(et int, idx []int, val []float64, n int) (ad.ConstVector, callerSlices) {
	switch et {
	case 1:
		return mkConst(idx, val, n, func(i []int, v []float32, n int) ad.ConstVector { return ad.NewSparseConstFloat32Vector(i, v, n) })
	case 2:
		return mkConst(idx, val, n, func(i []int, v []int, n int) ad.ConstVector { return ad.NewSparseConstIntVector(i, v, n) })
	case 3:
		return mkConst(idx, val, n, func(i []int, v []int64, n int) ad.ConstVector { return ad.NewSparseConstInt64Vector(i, v, n) })
	case 4:
		return mkConst(idx, val, n, func(i []int, v []int32, n int) ad.ConstVector { return ad.NewSparseConstInt32Vector(i, v, n) })
	case 5:
		return mkConst(idx, val, n, func(i []int, v []int16, n int) ad.ConstVector { return ad.NewSparseConstInt16Vector(i, v, n) })
	case 6:
		return mkConst(idx, val, n, func(i []int, v []int8, n int) ad.ConstVector { return ad.NewSparseConstInt8Vector(i, v, n) })
	}
	return mkConst(idx, val, n, func(i []int, v []float64, n int) ad.ConstVector { return ad.NewSparseConstFloat64Vector(i, v, n) })
}

func asSparseConst(et int, v ad.ConstVector) ad.ConstVector {
	switch et {
	case 1:
		return ad.AsSparseConstFloat32Vector(v)
	case 2:
		return ad.AsSparseConstIntVector(v)
	case 3:
		return ad.AsSparseConstInt64Vector(v)
	case 4:
		return ad.AsSparseConstInt32Vector(v)
	case 5:
		return ad.AsSparseConstInt16Vector(v)
	case 6:
		return ad.AsSparseConstInt8Vector(v)
	}
	return ad.AsSparseConstFloat64Vector(v)
}
