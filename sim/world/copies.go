package world

import (
	"fmt"

	ad "github.com/pbenner/autodiff"
	"verif/sim/core"
)

/* C12, scenario "clones": copies are independent -----------------------------------
 *
 * Two handles that are supposed to share nothing: an object and its copy
 * (Clone*, As-conversion, iterator clone, scalar clone).  Each side keeps a
 * snapshot of its own observable state; the tape then lets either side
 * mutate, and after every step the side that did NOT act must still equal
 * its snapshot.  No model of the operations' semantics is needed.
 */

type side struct {
	name string
	v    ad.Vector
	m    ad.Matrix
	snap obs
}

func (s *side) observe() obs {
	if s.v != nil {
		return obsVector(s.name, s.v)
	}
	return obsMatrix(s.name, s.m)
}

type cpWorld struct {
	c    *core.Ctx
	e    elemType // element type of the source
	e2   elemType // element type of the copy
	a, b *side
	how  string
	kind string
	muts int
}

func (w *cpWorld) fail(oracle, failure, format string, args ...interface{}) {
	w.c.Fail(oracle, w.kind+"|"+w.how+"|"+failure, format, args...)
}

func (w *cpWorld) guard(op string, f func()) {
	if pv, site := core.Try(f); pv != nil {
		w.fail("no-panic", "panic-in:"+op+"|"+core.PanicClass(pv), "%s panicked in %s: %v", op, site, pv)
	}
}

// soft runs an operation whose own correctness is another property's
// business: a panic is counted, not reported (the independence oracle is
// still evaluated afterwards).
func (w *cpWorld) soft(op string, f func()) {
	if pv, _ := core.Try(f); pv != nil {
		w.c.Count("op-panicked:" + op)
		w.c.Logf("%s panicked: %v (not a C12 matter, continuing)", op, pv)
	}
}

func intVals(t *core.Tape, n int) []float64 {
	m := make([]float64, n)
	for i := range m {
		if t.Bool(2, 3) {
			m[i] = float64(t.Range(-4, 4))
		}
	}
	return m
}

// attachDerivs turns some elements into independent variables.
func attachDerivs(c *core.Ctx, get func(k int) ad.Scalar, n int) {
	t := c.Tape
	if n == 0 || !t.Bool(2, 3) {
		return
	}
	vars := []ad.MagicScalar{}
	for q := t.Range(1, min(3, n)); q > 0; q-- {
		if s, ok := get(t.Choose(n)).(ad.MagicScalar); ok {
			vars = append(vars, s)
		}
	}
	order := t.Range(1, 2)
	if pv, _ := core.Try(func() { ad.Variables(order, vars...) }); pv == nil {
		c.Logf("Variables(%d, %d elements of the source)", order, len(vars))
		c.Count("probe:derivatives-attached")
	}
}

func RunClones(c *core.Ctx) {
	t := c.Tape
	w := &cpWorld{c: c, e: pickType(t)}
	w.e2 = w.e
	sparse := t.Bool(1, 2)
	w.a, w.b = &side{name: "source"}, &side{name: "copy"}
	if t.Bool(1, 2) {
		/* vectors */
		w.kind = storageName(sparse) + "Vector"
		n := t.Range(0, 8)
		src := mkVector(w.e, sparse, intVals(t, n))
		if w.e.isReal() {
			attachDerivs(c, func(k int) ad.Scalar { return src.At(k) }, n)
		}
		c.Logf("source = %s %s vector %s", storageName(sparse), w.e.name, fmt.Sprint(src))
		// a few mutations first so that the source has a history
		w.a.v = src
		for k := t.Choose(4); k > 0; k-- {
			w.mutate(w.a)
		}
		var cp ad.Vector
		switch t.Choose(8) {
		case 6:
			w.how = "AsDenseMagicVector"
			w.e2 = elemTypes[[]int{1, 3}[t.Choose(2)]]
			w.guard(w.how, func() { cp = ad.AsDenseMagicVector(w.e2.t, w.a.v).(ad.Vector) })
		case 7:
			w.how = "AsSparseMagicVector"
			w.e2 = elemTypes[[]int{1, 3}[t.Choose(2)]]
			w.guard(w.how, func() { cp = ad.AsSparseMagicVector(w.e2.t, w.a.v).(ad.Vector) })
		case 0:
			w.how = "CloneVector"
			w.guard(w.how, func() { cp = w.a.v.CloneVector() })
		case 1:
			w.how = "CloneConstVector"
			w.guard(w.how, func() { cp = w.a.v.CloneConstVector().(ad.Vector) })
		case 2:
			w.how = "AsDenseVector"
			w.e2 = w.convType()
			w.guard(w.how, func() { cp = ad.AsDenseVector(w.e2.t, w.a.v) })
		case 3:
			w.how = "AsSparseVector"
			w.e2 = w.convType()
			w.guard(w.how, func() { cp = ad.AsSparseVector(w.e2.t, w.a.v) })
		case 4:
			w.how = "Slice.CloneVector"
			lo := t.Choose(w.a.v.Dim() + 1)
			hi := lo + t.Choose(w.a.v.Dim()-lo+1)
			if sparse {
				// a sparse slice is itself only a snapshot (see C10/C11); clone the whole vector
				lo, hi = 0, w.a.v.Dim()
			}
			var sl ad.Vector
			w.guard("Slice", func() { sl = w.a.v.Slice(lo, hi) })
			w.guard(w.how, func() { cp = sl.CloneVector() })
			w.a.v = sl
		default:
			if mv, ok := w.a.v.(ad.MagicVector); ok {
				w.how = "CloneMagicVector"
				w.guard(w.how, func() { cp = mv.CloneMagicVector() })
			} else {
				w.how = "CloneVector"
				w.guard(w.how, func() { cp = w.a.v.CloneVector() })
			}
		}
		w.b.v = cp
	} else {
		/* matrices, possibly views */
		w.kind = storageName(sparse) + "Matrix"
		R, C := t.Range(0, 4), t.Range(0, 4)
		src := mkMatrix(w.e, sparse, R, C, intVals(t, R*C))
		if w.e.isReal() && R*C > 0 {
			attachDerivs(c, func(k int) ad.Scalar { return src.At(k/C, k%C) }, R*C)
		}
		c.Logf("source = %s %s matrix %dx%d %s", storageName(sparse), w.e.name, R, C, fmtVals(valuesOf(src)))
		w.a.m = src
		// the source may be a view of the matrix just built
		for d := t.Choose(3); d > 0; d-- {
			r, cc := w.a.m.Dims()
			if t.Bool(1, 2) && !sparse {
				w.guard("T", func() { w.a.m = w.a.m.T() })
				w.kind += ".T"
				c.Logf("source = source.T()")
			} else {
				r0 := t.Choose(r + 1)
				r1 := r0 + t.Choose(r-r0+1)
				c0 := t.Choose(cc + 1)
				c1 := c0 + t.Choose(cc-c0+1)
				w.guard("Slice", func() { w.a.m = w.a.m.Slice(r0, r1, c0, c1) })
				w.kind += ".Slice"
				c.Logf("source = source.Slice(%d,%d,%d,%d)", r0, r1, c0, c1)
			}
		}
		for k := t.Choose(4); k > 0; k-- {
			w.mutate(w.a)
		}
		var cp ad.Matrix
		switch t.Choose(7) {
		case 5:
			w.how = "AsDenseMagicMatrix"
			w.e2 = elemTypes[[]int{1, 3}[t.Choose(2)]]
			w.guard(w.how, func() { cp = ad.AsDenseMagicMatrix(w.e2.t, w.a.m).(ad.Matrix) })
		case 6:
			w.how = "AsSparseMagicMatrix"
			w.e2 = elemTypes[[]int{1, 3}[t.Choose(2)]]
			w.guard(w.how, func() { cp = ad.AsSparseMagicMatrix(w.e2.t, w.a.m).(ad.Matrix) })
		case 0:
			w.how = "CloneMatrix"
			w.guard(w.how, func() { cp = w.a.m.CloneMatrix() })
		case 1:
			w.how = "CloneConstMatrix"
			w.guard(w.how, func() { cp = w.a.m.CloneConstMatrix().(ad.Matrix) })
		case 2:
			w.how = "AsDenseMatrix"
			w.e2 = w.convType()
			w.guard(w.how, func() { cp = ad.AsDenseMatrix(w.e2.t, w.a.m) })
		case 3:
			w.how = "AsSparseMatrix"
			w.e2 = w.convType()
			w.guard(w.how, func() { cp = ad.AsSparseMatrix(w.e2.t, w.a.m) })
		default:
			if mm, ok := w.a.m.(ad.MagicMatrix); ok {
				w.how = "CloneMagicMatrix"
				w.guard(w.how, func() { cp = mm.CloneMagicMatrix() })
			} else {
				w.how = "CloneMatrix"
				w.guard(w.how, func() { cp = w.a.m.CloneMatrix() })
			}
		}
		w.b.m = cp
	}
	c.Logf("copy = %s(source)  [%s, %s -> %s]", w.how, w.kind, w.e.name, w.e2.name)
	w.a.snap = w.a.observe()
	w.b.snap = w.b.observe()
	// (1) the copy is observably equal to the source at creation
	w.sameAtCreation()
	// (2) interleaved mutation of either side
	nops := t.Range(2, 16)
	for i := 0; i < nops; i++ {
		c.Steps++
		actor, other := w.a, w.b
		if t.Bool(1, 2) {
			actor, other = w.b, w.a
		}
		c.Logf("-- %s acts", actor.name)
		w.mutate(actor)
		w.guard("observe", func() { actor.snap = actor.observe() })
		var now obs
		w.guard("observe", func() { now = other.observe() })
		if !now.equal(other.snap) {
			w.fail("independence", "mutation-visible-through-"+other.name, "after a mutation of the %s, the %s changed: was %s, is %s", actor.name, other.name, other.snap, now)
		}
		c.State(hashObs(actor.snap) ^ hashObs(other.snap)<<1)
	}
	c.Nontriv = w.muts >= 2
	c.Sample = map[string]interface{}{"kind": w.kind, "copy_by": w.how, "from": w.e.name, "to": w.e2.name, "mutations": w.muts}
}

func hashObs(o obs) uint64 {
	h := uint64(1469598103934665603) ^ uint64(o.r*7+o.c)
	for _, c := range o.cells {
		h = h*1099511628211 ^ uint64(int64(c.v*8)) ^ uint64(len(c.d))<<8
	}
	return h
}

// convType picks the element type of an As-conversion.
func (w *cpWorld) convType() elemType { return pickType(w.c.Tape) }

func (w *cpWorld) sameAtCreation() {
	a, b := w.a.snap, w.b.snap
	if a.r != b.r || a.c != b.c {
		w.fail("equal-at-creation", "shape", "copy has shape %dx%d, source %dx%d", b.r, b.c, a.r, a.c)
	}
	carriesDerivs := w.e.isReal() && w.e2.isReal()
	for i := range a.cells {
		x, y := a.cells[i], b.cells[i]
		if !carriesDerivs {
			x.d, y.d = nil, nil
		}
		// values are small integers: exact in every element type
		if !x.equal(y) {
			w.fail("equal-at-creation", "element", "copy element %d = %s, source element = %s (source %s)", i, y, x, a)
		}
	}
}

// mutate applies one mutating operation to a side, through the public API.
func (w *cpWorld) mutate(s *side) {
	t := w.c.Tape
	w.muts++
	e := w.e
	if s == w.b {
		e = w.e2
	}
	if s.v != nil {
		n := s.v.Dim()
		op := t.Choose(10)
		if n == 0 {
			op = 3
		}
		switch op {
		case 0, 1:
			i, x := t.Choose(n), float64(t.Range(-4, 4))
			w.c.Logf("%s.At(%d) <- %g", s.name, i, x)
			w.soft("At.Set", func() { s.v.At(i).SetFloat64(x) })
		case 2:
			i, x := t.Choose(n), float64(t.Range(-4, 4))
			w.c.Logf("%s.At(%d).Add(self, %g)", s.name, i, x)
			w.soft("At.Add", func() { el := s.v.At(i); el.Add(el, ad.NewScalar(e.t, x)) })
		case 3:
			w.c.Logf("%s.Reset()", s.name)
			w.soft("Reset", func() { s.v.Reset() })
		case 4:
			o := mkVector(e, t.Bool(1, 2), intVals(t, n))
			w.c.Logf("%s.Set(%v)", s.name, o)
			w.soft("Set", func() { s.v.Set(o) })
		case 5:
			i, j := t.Choose(n), t.Choose(n)
			w.c.Logf("%s.Swap(%d,%d)", s.name, i, j)
			w.soft("Swap", func() { s.v.Swap(i, j) })
		case 6:
			w.c.Logf("%s.Sort/ReverseOrder", s.name)
			if t.Bool(1, 2) {
				w.soft("Sort", func() { s.v.Sort(t.Bool(1, 2)) })
			} else {
				w.soft("ReverseOrder", func() { s.v.ReverseOrder() })
			}
		case 7:
			a, b := mkVector(e, t.Bool(1, 2), intVals(t, n)), mkVector(e, t.Bool(1, 2), intVals(t, n))
			w.c.Logf("%s.VaddV(%v,%v)", s.name, a, b)
			w.soft("VaddV", func() { s.v.VaddV(a, b) })
		case 8:
			w.c.Logf("%s.Map(x -> x+1)", s.name)
			w.soft("Map", func() { s.v.Map(func(x ad.Scalar) { x.SetFloat64(x.GetFloat64() + 1) }) })
		case 9:
			if mv, ok := s.v.(ad.MagicVector); ok {
				w.c.Logf("%s.Variables(1)", s.name)
				w.soft("Variables", func() { mv.Variables(1) })
			} else {
				w.c.Logf("%s: iteration sweep", s.name)
				w.soft("sweep", func() {
					for it := s.v.Iterator(); it.Ok(); it.Next() {
						it.Get().SetFloat64(it.Get().GetFloat64() * 2)
					}
				})
			}
		}
		return
	}
	R, C := s.m.Dims()
	op := t.Choose(11)
	if R == 0 || C == 0 {
		op = 3
	}
	switch op {
	case 0, 1:
		i, j, x := t.Choose(R), t.Choose(C), float64(t.Range(-4, 4))
		w.c.Logf("%s.At(%d,%d) <- %g", s.name, i, j, x)
		w.soft("At.Set", func() { s.m.At(i, j).SetFloat64(x) })
	case 2:
		i, j, x := t.Choose(R), t.Choose(C), float64(t.Range(1, 4))
		w.c.Logf("%s.At(%d,%d).Mul(self, %g)", s.name, i, j, x)
		w.soft("At.Mul", func() { el := s.m.At(i, j); el.Mul(el, ad.NewScalar(e.t, x)) })
	case 3:
		w.c.Logf("%s.Reset()", s.name)
		w.soft("Reset", func() { s.m.Reset() })
	case 4:
		o := mkMatrix(e, t.Bool(1, 2), R, C, intVals(t, R*C))
		w.c.Logf("%s.Set(...)", s.name)
		w.soft("Set", func() { s.m.Set(o) })
	case 5:
		w.c.Logf("%s.SetIdentity()", s.name)
		w.soft("SetIdentity", func() { s.m.SetIdentity() })
	case 6:
		i1, j1, i2, j2 := t.Choose(R), t.Choose(C), t.Choose(R), t.Choose(C)
		w.c.Logf("%s.Swap(%d,%d,%d,%d)", s.name, i1, j1, i2, j2)
		w.soft("Swap", func() { s.m.Swap(i1, j1, i2, j2) })
	case 7:
		a, b := mkMatrix(e, t.Bool(1, 2), R, C, intVals(t, R*C)), mkMatrix(e, t.Bool(1, 2), R, C, intVals(t, R*C))
		w.c.Logf("%s.MaddM(a,b)", s.name)
		w.soft("MaddM", func() { s.m.MaddM(a, b) })
	case 8:
		k := t.Range(1, 3)
		a, b := mkMatrix(e, t.Bool(1, 2), R, k, intVals(t, R*k)), mkMatrix(e, t.Bool(1, 2), k, C, intVals(t, k*C))
		w.c.Logf("%s.MdotM(a %dx%d, b %dx%d)  (uses the scratch vectors tmp1/tmp2)", s.name, R, k, k, C)
		w.soft("MdotM", func() { s.m.MdotM(a, b) })
	case 9:
		w.c.Logf("%s.Map(x -> x+1)", s.name)
		w.soft("Map", func() { s.m.Map(func(x ad.Scalar) { x.SetFloat64(x.GetFloat64() + 1) }) })
	case 10:
		if mm, ok := s.m.(ad.MagicMatrix); ok {
			w.c.Logf("%s.Variables(1)", s.name)
			w.soft("Variables", func() { mm.Variables(1) })
		} else {
			w.c.Logf("%s: iterator write sweep", s.name)
			w.soft("sweep", func() {
				for it := s.m.Iterator(); it.Ok(); it.Next() {
					it.Get().SetFloat64(it.Get().GetFloat64() + 3)
				}
			})
		}
	}
}

/* C12, scenario "operands": read-only operands stay unchanged --------------------------- */

func RunOperands(c *core.Ctx) {
	t := c.Tape
	e := pickType(t)
	w := &cpWorld{c: c, e: e, e2: e, kind: "operands"}
	type operand struct {
		name string
		v    ad.Vector
		m    ad.Matrix
		snap obs
	}
	ops := []*operand{}
	snapAll := func() {
		for _, o := range ops {
			if o.v != nil {
				o.snap = obsVector(o.name, o.v)
			} else {
				o.snap = obsMatrix(o.name, o.m)
			}
		}
	}
	checkAll := func(what string) {
		for _, o := range ops {
			var now obs
			w.guard("observe", func() {
				if o.v != nil {
					now = obsVector(o.name, o.v)
				} else {
					now = obsMatrix(o.name, o.m)
				}
			})
			if !now.equal(o.snap) {
				w.fail("operand-unchanged", what+"|operand-changed", "%s changed its read-only operand %s: was %s, is %s", what, o.name, o.snap, now)
			}
		}
	}
	n, k := t.Range(1, 4), t.Range(1, 4)
	sa, sb, sr := t.Bool(1, 2), t.Bool(1, 2), t.Bool(1, 2)
	nrun := t.Range(2, 8)
	for i := 0; i < nrun; i++ {
		c.Steps++
		ops = ops[:0]
		kind := t.Choose(21)
		w.how = []string{"VaddV", "VmulV", "VdivS", "MdotV", "VdotM", "MaddM", "MmulM", "MdotM", "Outer", "Set", "JointIterator", "Equals",
			"VsubV", "VdivV", "VaddS", "VmulS", "MsubM", "MdivM", "MaddS", "MmulS", "MdivS"}[kind]
		// the concrete-type variant (VADDV, MDOTM, ...) where the receiver has one
		// for operands of these concrete types; the interface method otherwise
		typed := t.Bool(1, 3)
		call := func(recv interface{}, upper string, iface func(), args ...interface{}) {
			if typed && typedCall(recv, upper, args...) {
				c.Count("typed-variant:" + upper)
				return
			}
			iface()
		}
		va, vb := &operand{name: "a", v: mkVector(e, sa, intVals(t, n))}, &operand{name: "b", v: mkVector(e, sb, intVals(t, n))}
		ma, mb := &operand{name: "A", m: mkMatrix(e, sa, n, k, intVals(t, n*k))}, &operand{name: "B", m: mkMatrix(e, sb, k, n, intVals(t, k*n))}
		mc := &operand{name: "C", m: mkMatrix(e, sb, n, k, intVals(t, n*k))}
		vk := &operand{name: "u", v: mkVector(e, sb, intVals(t, k))}
		if e.isReal() {
			attachDerivs(c, func(q int) ad.Scalar { return va.v.At(q) }, n)
			attachDerivs(c, func(q int) ad.Scalar { return ma.m.At(q/k, q%k) }, n*k)
		}
		mkR := func(r, cc int) ad.Matrix { return mkMatrix(e, sr, r, cc, intVals(t, r*cc)) }
		mkV := func(r int) ad.Vector { return mkVector(e, sr, intVals(t, r)) }
		c.Logf("%s with %s receiver, operands %s/%s of %s", w.how, storageName(sr), storageName(sa), storageName(sb), e.name)
		switch kind {
		case 0:
			ops = append(ops, va, vb)
			snapAll()
			w.soft(w.how, func() { r := mkV(n); call(r, "VADDV", func() { r.VaddV(va.v, vb.v) }, va.v, vb.v) })
		case 1:
			ops = append(ops, va, vb)
			snapAll()
			w.soft(w.how, func() { r := mkV(n); call(r, "VMULV", func() { r.VmulV(va.v, vb.v) }, va.v, vb.v) })
		case 2:
			ops = append(ops, va)
			snapAll()
			w.soft(w.how, func() { r, x := mkV(n), ad.NewScalar(e.t, 2); call(r, "VDIVS", func() { r.VdivS(va.v, x) }, va.v, x) })
		case 3:
			ops = append(ops, ma, vk)
			snapAll()
			w.soft(w.how, func() { r := mkV(n); call(r, "MDOTV", func() { r.MdotV(ma.m, vk.v) }, ma.m, vk.v) })
		case 4:
			ops = append(ops, va, ma)
			snapAll()
			w.soft(w.how, func() { r := mkV(k); call(r, "VDOTM", func() { r.VdotM(va.v, ma.m) }, va.v, ma.m) })
		case 5:
			ops = append(ops, ma, mc)
			snapAll()
			w.soft(w.how, func() { r := mkR(n, k); call(r, "MADDM", func() { r.MaddM(ma.m, mc.m) }, ma.m, mc.m) })
		case 6:
			ops = append(ops, ma, mc)
			snapAll()
			w.soft(w.how, func() { r := mkR(n, k); call(r, "MMULM", func() { r.MmulM(ma.m, mc.m) }, ma.m, mc.m) })
		case 7:
			ops = append(ops, ma, mb)
			snapAll()
			w.soft(w.how, func() { r := mkR(n, n); call(r, "MDOTM", func() { r.MdotM(ma.m, mb.m) }, ma.m, mb.m) })
		case 8:
			ops = append(ops, va, vk)
			snapAll()
			w.soft(w.how, func() { r := mkR(n, k); call(r, "OUTER", func() { r.Outer(va.v, vk.v) }, va.v, vk.v) })
		case 9:
			ops = append(ops, ma, va)
			snapAll()
			w.soft(w.how, func() { mkR(n, k).Set(ma.m); mkV(n).Set(va.v) })
		case 10:
			ops = append(ops, va, ma)
			snapAll()
			w.soft(w.how, func() {
				for it := mkV(n).JointIterator(va.v); it.Ok(); it.Next() {
				}
				for it := mkR(n, k).JointIterator(ma.m); it.Ok(); it.Next() {
				}
			})
		case 11:
			ops = append(ops, va, vb, ma, mc)
			snapAll()
			w.soft(w.how, func() {
				va.v.Equals(vb.v, 1e-8)
				ma.m.Equals(mc.m, 1e-8)
				reflectBool(va.v, "EQUALS", vb.v, 1e-8)
				reflectBool(ma.m, "EQUALS", mc.m, 1e-8)
				_ = fmt.Sprint(va.v, ma.m)
				_ = ma.m.Table()
			})
		case 12:
			ops = append(ops, va, vb)
			snapAll()
			w.soft(w.how, func() { r := mkV(n); call(r, "VSUBV", func() { r.VsubV(va.v, vb.v) }, va.v, vb.v) })
		case 13:
			ops = append(ops, va, vb)
			snapAll()
			w.soft(w.how, func() { r := mkV(n); call(r, "VDIVV", func() { r.VdivV(va.v, vb.v) }, va.v, vb.v) })
		case 14:
			ops = append(ops, va)
			snapAll()
			w.soft(w.how, func() { r, x := mkV(n), ad.NewScalar(e.t, 3); call(r, "VADDS", func() { r.VaddS(va.v, x) }, va.v, x) })
		case 15:
			ops = append(ops, va)
			snapAll()
			w.soft(w.how, func() { r, x := mkV(n), ad.NewScalar(e.t, 3); call(r, "VMULS", func() { r.VmulS(va.v, x) }, va.v, x) })
		case 16:
			ops = append(ops, ma, mc)
			snapAll()
			w.soft(w.how, func() { r := mkR(n, k); call(r, "MSUBM", func() { r.MsubM(ma.m, mc.m) }, ma.m, mc.m) })
		case 17:
			ops = append(ops, ma, mc)
			snapAll()
			w.soft(w.how, func() { r := mkR(n, k); call(r, "MDIVM", func() { r.MdivM(ma.m, mc.m) }, ma.m, mc.m) })
		case 18:
			ops = append(ops, ma)
			snapAll()
			w.soft(w.how, func() { r, x := mkR(n, k), ad.NewScalar(e.t, 3); call(r, "MADDS", func() { r.MaddS(ma.m, x) }, ma.m, x) })
		case 19:
			ops = append(ops, ma)
			snapAll()
			w.soft(w.how, func() { r, x := mkR(n, k), ad.NewScalar(e.t, 3); call(r, "MMULS", func() { r.MmulS(ma.m, x) }, ma.m, x) })
		case 20:
			ops = append(ops, ma)
			snapAll()
			w.soft(w.how, func() { r, x := mkR(n, k), ad.NewScalar(e.t, 2); call(r, "MDIVS", func() { r.MdivS(ma.m, x) }, ma.m, x) })
		}
		checkAll(w.how)
		c.StateStr(w.how + storageName(sa) + storageName(sb) + storageName(sr) + e.name)
	}
	c.Nontriv = true
	c.Sample = map[string]interface{}{"element_type": e.name, "calls": nrun, "last": w.how}
}
