package world

import (
	"fmt"

	ad "github.com/pbenner/autodiff"
	"verif/sim/core"
)

/* vector slices ----------------------------------------------------------------------------
 *
 * ConstSlice(i,j).ConstAt(k) is ConstAt(i+k), for every vector type: dense and
 * sparse vectors of the nine element types, read-only sparse vectors, and the
 * gradient of a scalar seen as a vector (DenseGradient).  Nested slices; for
 * dense vectors Slice(i,j) is a reference view and writes go through.
 */

func RunVectorSlices(c *core.Ctx) {
	t := c.Tape
	n := t.Range(1, 8)
	m := make([]float64, n)
	for i := range m {
		if t.Bool(2, 3) {
			m[i] = float64(t.Range(1, 9))
		}
	}
	kind := t.Choose(4)
	e := pickType(t)
	var v ad.ConstVector
	var mv ad.Vector
	name := ""
	switch kind {
	case 0:
		name = "dense " + e.name
		mv = ad.NullDenseVector(e.t, n)
	case 1:
		name = "sparse " + e.name
		mv = ad.NullSparseVector(e.t, n)
	case 2:
		name = "read-only sparse"
		idx, val := []int{}, []float64{}
		for i, x := range m {
			if x != 0 {
				idx, val = append(idx, i), append(val, x)
			}
		}
		v = newSparseConst(t.Choose(7), idx, val, n)
	default:
		name = "gradient of a scalar"
		s := ad.NewReal64(1)
		s.Alloc(n, 1)
		for i, x := range m {
			s.SetDerivative(i, x)
		}
		v = ad.DenseGradient{S: s}
	}
	if mv != nil {
		for i, x := range m {
			if x != 0 {
				mv.At(i).SetFloat64(x)
			}
		}
		v = mv
	}
	c.Logf("%s vector %v", name, m)
	fail := func(oracle, failure, format string, args ...interface{}) {
		c.Fail(oracle, "vector|"+failure, format, args...)
	}
	type handle struct {
		v   ad.ConstVector
		off int
		n   int
	}
	hs := []handle{{v, 0, n}}
	nops := t.Range(2, 12)
	for k := 0; k < nops; k++ {
		c.Steps++
		h := hs[t.Choose(len(hs))]
		switch t.Choose(3) {
		case 0:
			if len(hs) >= 4 {
				continue
			}
			a := t.Choose(h.n + 1)
			b := a + t.Choose(h.n-a+1)
			var s ad.ConstVector
			if pv, site := core.Try(func() { s = h.v.ConstSlice(a, b) }); pv != nil {
				fail("no-panic", "ConstSlice|panic|"+core.PanicClass(pv), "ConstSlice(%d,%d) of a %s vector of dimension %d panicked in %s: %v", a, b, name, h.n, site, pv)
			}
			c.Logf("handle %d = ConstSlice(%d,%d) of [%d,%d)", len(hs), a, b, h.off, h.off+h.n)
			if s.Dim() != b-a {
				fail("addressing", "ConstSlice|wrong-dimension", "ConstSlice(%d,%d) of a %s vector has dimension %d", a, b, name, s.Dim())
			}
			hs = append(hs, handle{s, h.off + a, b - a})
		case 1:
			if h.n == 0 {
				continue
			}
			i := t.Choose(h.n)
			var x float64
			if pv, site := core.Try(func() { x = h.v.ConstAt(i).GetFloat64() }); pv != nil {
				fail("no-panic", "read|panic|"+core.PanicClass(pv), "reading position %d of a slice [%d,%d) of a %s vector panicked in %s: %v", i, h.off, h.off+h.n, name, site, pv)
			}
			if x != m[h.off+i] {
				fail("addressing", "read|wrong-element", "position %d of the slice [%d,%d) of a %s vector reads %g, the vector holds %g there", i, h.off, h.off+h.n, name, x, m[h.off+i])
			}
		default:
			// a write into the root: visible through every slice of a dense vector
			if kind != 0 || n == 0 {
				continue
			}
			i := t.Choose(n)
			x := float64(t.Range(1, 9))
			mv.At(i).SetFloat64(x)
			m[i] = x
			c.Logf("root[%d] = %g", i, x)
			for _, g := range hs {
				for q := 0; q < g.n; q++ {
					if y := g.v.ConstAt(q).GetFloat64(); y != m[g.off+q] {
						fail("addressing", "write-through|stale-slice", "after root[%d] = %g the slice [%d,%d) of a dense vector reads %g at %d, the vector holds %g", i, x, g.off, g.off+g.n, y, q, m[g.off+q])
					}
				}
			}
		}
	}
	c.Nontriv = n >= 2 && len(hs) >= 2
	c.StateStr(fmt.Sprint(name, n, len(hs)))
	c.Sample = map[string]interface{}{"vector": name, "dim": n, "handles": len(hs), "ops": nops}
}
