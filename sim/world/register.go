package world

import "verif/sim/core"

func runC12(c *core.Ctx) {
	switch c.Scenario {
	case "clones":
		RunClones(c)
	case "operands":
		RunOperands(c)
	case "algorithm-inputs":
		RunAlgorithmInputs(c)
	case "iterator-clones":
		RunIteratorClones(c)
	case "scalar-clones":
		RunScalarClones(c)
	case "distribution-parameters":
		RunDistributionParams(c)
	case "model-constructors":
		RunModelConstructors(c)
	case "model-read-only":
		RunModelReadOnly(c)
	case "read-only-slices":
		RunSparseConst(c)
	default:
		panic("unknown scenario " + c.Scenario)
	}
}

func runC11(c *core.Ctx) {
	switch c.Scenario {
	case "sparse-vector":
		RunSparseVector(c)
	case "sparse-matrix":
		RunSparseMatrix(c)
	case "sparse-const-vector":
		RunSparseConst(c)
	case "iterator-clones":
		RunIteratorClones(c)
	default:
		panic("unknown scenario " + c.Scenario)
	}
}

func runC10(c *core.Ctx) {
	switch c.Scenario {
	case "dense-views":
		RunViews(c, false)
	case "sparse-views":
		RunViews(c, true)
	case "vector-slices":
		RunVectorSlices(c)
	case "vector-slice-operations":
		RunVectorSliceOps(c)
	default:
		panic("unknown scenario " + c.Scenario)
	}
}

func init() {
	core.Register(&core.Property{
		ID:     "C10",
		Level:  "exploration",
		Engine: "B: shared-storage world simulator (views)",
		Scenarios: []core.Scenario{
			{Name: "dense-views", Weight: 1},
			{Name: "sparse-views", Weight: 1},
			{Name: "vector-slices", Weight: 1},
			{Name: "vector-slice-operations", Weight: 1},
		},
		Run:      runC10,
		StepUnit: "operations by handles (root, Slice/T/ConstSlice views nested to depth 3) on one shared storage",
		Rule:     "one run = one root matrix (0..5 x 0..5, drawn element type, dense or sparse) and a seeded history of <=40 steps in which the tape picks a handle (root or one of <=5 live views: Slice, ConstSlice, T, nested) and an operation (element write, ~20 mutating operations, ~25 reading/operand/iteration/print/JSON/export operations, new view, Tip). Oracle 1: index-map model of which storage element each handle element denotes, all handles read back after every step (values; derivatives handle-vs-root for real types). Oracle 2: the same operation applied to an independent deep copy must give the same result and contents. The arithmetic steps include the concrete-type variants (MADDM, MDOTM, OUTER, EQUALS, ...: methods that take operands of the receiver's concrete type) and division by operands without zeros. vector-slices: ConstSlice(i,j).ConstAt(k) is ConstAt(i+k) for dense, sparse and read-only sparse vectors and the gradient vector of a scalar, nested, with write-through for dense vectors. vector-slice-operations: a chain of nested Slice views of a dense vector (9 element types, real types with derivatives) and 2..10 operations with a slice as receiver or operand (interface and concrete-type arithmetic, products, Set/Reset/Map/Swap/Permute/Sort/ReverseOrder, AppendScalar/AppendVector, iteration, printing, JSON, conversions); oracle: same result and contents as on a deep copy, and afterwards the root holds the deep copy's contents inside the slice and is unchanged outside of it. Non-trivial = at least 3 operations executed on a view (vector slices: 2). Distinct = hash of the sequence of storage-model states and handle shapes.",
		Assumptions: []string{
			"operands never share storage with the receiver (aliasing is C08)",
			"Tip() is only applied to the root after all views were dropped (the property specifies it for a matrix that owns its whole storage)",
			"AsVector order is unspecified by the library: compared as a multiset",
			"a defect of the plain container that shows identically on the deep copy is not reported here (it is not a view defect)",
		},
		RealCode:     []string{"autodiff Dense*Matrix / Sparse*Matrix (9 element types): Slice, ConstSlice, T, Tip, iterators, arithmetic (interface methods and concrete-type variants), Row/Col/Diag, AsVector, String/Table, MarshalJSON/UnmarshalJSON, Export/Import; Dense*Vector Slice / ConstSlice with every vector operation; ConstSlice of sparse, read-only sparse and gradient vectors"},
		Stubs:        []string{"none (reference: index map over a flat []float64 + deep copy built through At().Set())"},
		Caps:         map[string]int{"ops_per_run": 40, "rows": 5, "cols": 5, "view_depth": 3, "live_handles": 6},
		QuickRuns:    250000,
		ThoroughRuns: 5000000,
		StallS:       20,
		Probes: []core.FindingProbe{
			{ID: "C10-F2", Run: ProbeSparseT},
		},
	})
	core.Register(&core.Property{
		ID:     "C11",
		Level:  "exploration",
		Engine: "B: shared-storage world simulator (sparse containers)",
		Scenarios: []core.Scenario{
			{Name: "sparse-vector", Weight: 1},
			{Name: "sparse-matrix", Weight: 1},
			{Name: "sparse-const-vector", Weight: 1},
			{Name: "iterator-clones", Weight: 1},
		},
		Run:      runC11,
		StepUnit: "operations by handles (container, live iterators, slices) on one sparse container",
		Rule:     "sparse-vector / sparse-matrix: one run = one seeded history of <=50 public operations on one sparse container of a drawn element type (9 types) and dimension 0..12, interleaved by the tape with <=3 partially consumed iterators and read-only slice handles; operands are fresh dense or sparse objects; arithmetic steps use the interface methods or (one in three) the concrete-type variants VADDV ... VDIVS, and include division by operands without zeros. After every step all in-range reads and Dim are compared with a dense []float64 model of the same history; full iteration sweeps are themselves scheduled operations. sparse-const-vector: a read-only sparse vector built from positions handed over in a drawn order (incl. explicit zeros) and <=30 interleaved read handles (point reads before and after the lazy index map exists, iteration from every lower bound, nested read-only slices, joint iteration with a dense partner). Non-trivial = at least 4 mutating operations on a container of dimension >=2 (read-only: dimension >= 2 and at least one entry). Distinct = distinct hash of the sequence of model states and iterator positions.",
		Assumptions: []string{
			"values are small integers / halves so that every element type computes exactly; integer overflow is modelled as wrap-around",
			"receiver and operands never share storage (aliasing is C08, not claimed)",
			"Map/MapSet are only given functions with f(0)=0; Reduce only a commutative function",
			"after Sort, Permute, ReverseOrder or Append nothing is demanded of iterators created before (they are still advanced, and the container must stay coherent)",
			"no derivatives are attached to elements in C11 runs",
		},
		RealCode:     []string{"autodiff Sparse*Vector (all 9 element types), their iterators, vectorSparseIndex/AvlTree, dense vectors as operands"},
		Stubs:        []string{"none (reference model: []float64)"},
		Caps:         map[string]int{"ops_per_run": 50, "dim": 12, "live_iterators": 3},
		QuickRuns:    250000,
		ThoroughRuns: 6000000,
		StallS:       20,
	})
	core.Register(&core.Property{
		ID:     "C12",
		Level:  "exploration",
		Engine: "B: shared-storage world simulator (copies, operands) + E: step clock (algorithm inputs)",
		Scenarios: []core.Scenario{
			{Name: "clones", Weight: 5},
			{Name: "operands", Weight: 2},
			{Name: "algorithm-inputs", Weight: 1},
			{Name: "iterator-clones", Weight: 2},
			{Name: "scalar-clones", Weight: 1},
			{Name: "distribution-parameters", Weight: 1},
			{Name: "model-constructors", Weight: 1},
			{Name: "model-read-only", Weight: 1},
			{Name: "read-only-slices", Weight: 1},
		},
		Run:      runC12,
		StepUnit: "mutating operations on either side of a copy / library calls with snapshotted operands",
		Rule:     "clones: a source container (dense/sparse vector or matrix, any of 9 element types, possibly a nested Slice/T view, derivatives attached for real types, after a short random history) is copied by a drawn copy operation (Clone*, CloneConst*, CloneMagic*, AsDense*/AsSparse* to a drawn element type, clone of a slice); the copy must equal the source at creation, then the tape interleaves <=16 mutations of either side and the side that did not act must equal its own snapshot (values, derivatives, shape). operands: 2..8 arithmetic/iteration/print calls (21 kinds, interface methods or the concrete-type variants VADDV / MDOTM / EQUALS ...) with fresh receivers; the operands must be unchanged. algorithm-inputs: 21 algorithm entry points, 1..3 calls per session with fresh or re-used nil-buffer InSitu objects under the step clock; every caller object of every call of the session must be unchanged. iterator-clones: up to 4 cursors (an iterator and clones of partially consumed iterators, 7 iterator kinds incl. joint iterators) advanced in a drawn interleaving; each must keep yielding the remaining part of the reference sequence. scalar-clones: scalar of any of 9 types (real ones with first/second derivatives) vs its copy under interleaved mutation. distribution-parameters: 12 scalar families; constructor arguments, GetParameters result, SetParameters argument and CloneScalarPdf are independent of the distribution. Non-trivial = at least 2 mutations (clones) / always (others). Distinct = hash of the sequence of observed states / of (call kind, storage kinds, element type, options).",
		Assumptions: []string{
			"values are small integers so that As-conversions between element types are exact",
			"derivatives are compared only where the target type can carry them",
			"gaussJordan.Run(a, x, b) is an in-place API by signature and is not part of the algorithm-inputs scenario",
			"a sparse vector Slice is a snapshot by design (see DESIGN.md); clones of sparse slices are taken of the whole vector",
		},
		RealCode:     []string{"all container types and their Clone/As-conversions, arithmetic, iterators; algorithm/* entry points; verifhook.Tick (build tag verif)"},
		Stubs:        []string{"objective functions of the optimizers (convex quadratics written with the library's AD scalars)"},
		Caps:         map[string]int{"mutations_per_run": 16, "dim": 8, "matrix": 4, "ticks_per_loop_site": 3000},
		QuickRuns:    200000,
		ThoroughRuns: 5000000,
		StallS:       20,
	})
}
