package world

import "verif/sim/core"

func runC11(c *core.Ctx) {
	switch c.Scenario {
	case "sparse-vector":
		RunSparseVector(c)
	default:
		panic("unknown scenario " + c.Scenario)
	}
}

func init() {
	core.Register(&core.Property{
		ID:     "C11",
		Level:  "exploration",
		Engine: "B: shared-storage world simulator (sparse containers)",
		Scenarios: []core.Scenario{
			{Name: "sparse-vector", Weight: 1},
		},
		Run:      runC11,
		StepUnit: "operations by handles (container, live iterators, slices) on one sparse container",
		Rule: "one run = one seeded history of <=50 public operations on one sparse container of a drawn element type (9 types) and dimension 0..12, interleaved by the tape with <=3 partially consumed iterators and read-only slice handles; operands are fresh dense or sparse objects. After every step all in-range reads and Dim are compared with a dense []float64 model of the same history; full iteration sweeps are themselves scheduled operations. Non-trivial = at least 4 mutating operations on a container of dimension >=2. Distinct = distinct hash of the sequence of model states and iterator positions.",
		Assumptions: []string{
			"values are small integers / halves so that every element type computes exactly; integer overflow is modelled as wrap-around",
			"receiver and operands never share storage (aliasing is C08, not claimed)",
			"Map/MapSet are only given functions with f(0)=0; Reduce only a commutative function",
			"after Sort, Permute, ReverseOrder or Append nothing is demanded of iterators created before (they are still advanced, and the container must stay coherent)",
			"no derivatives are attached to elements in C11 runs",
		},
		RealCode:     []string{"autodiff Sparse*Vector (all 9 element types), their iterators, vectorSparseIndex/AvlTree, dense vectors as operands"},
		Stubs:        []string{"none (reference model: []float64)"},
		Caps:         map[string]int{"ops_per_run": 50, "dim": 12, "live_iterators": 3},
		QuickRuns:    40000,
		ThoroughRuns: 4000000,
	})
}
