package world

import (
	"fmt"
	"sort"

	ad "github.com/pbenner/autodiff"
	"verif/sim/core"
)

/* C11, sparse matrix histories ---------------------------------------------------
 *
 * One sparse matrix (it delegates to one sparse vector of length rows*cols), a
 * dense row-major model of the same history, live iterators.  Semantics are
 * computed by the model itself (no differential against library code).
 */

type smIter struct {
	it     ad.MatrixConstIterator
	wit    ad.MatrixIterator
	pos    int // row-major position
	alive  bool
	zombie bool
}

// smHandle is the root matrix or a (nested) Slice view of it.  A sparse
// matrix view shares the value vector of its parent, so every handle denotes
// a window of the one storage model st.
type smHandle struct {
	name  string
	a     ad.Matrix
	R, C  int
	off   func(i, j int) int
	iters []*smIter
	depth int
}

type smWorld struct {
	c     *core.Ctx
	e     elemType
	st    []float64 // storage model of the root, SR x SC row-major
	SR, SC int
	hs    []*smHandle
	cur   *smHandle
	// window of the current handle (loaded before, stored after every step)
	a     ad.Matrix
	m     []float64
	R, C  int
	iters []*smIter
	last  string
	muts  int
	viewOps int
}

func (w *smWorld) load(h *smHandle) {
	w.cur, w.a, w.R, w.C, w.iters = h, h.a, h.R, h.C, h.iters
	w.m = make([]float64, h.R*h.C)
	for i := 0; i < h.R; i++ {
		for j := 0; j < h.C; j++ {
			w.m[i*h.C+j] = w.st[h.off(i, j)]
		}
	}
}

func (w *smWorld) store() {
	h := w.cur
	h.iters = w.iters
	if h.R != w.R || h.C != w.C {
		// Tip on the root (only done when it is the sole handle)
		h.R, h.C = w.R, w.C
		w.SR, w.SC = w.R, w.C
		C := w.C
		h.off = func(i, j int) int { return i*C + j }
		w.st = make([]float64, len(w.m))
	}
	for i := 0; i < h.R; i++ {
		for j := 0; j < h.C; j++ {
			w.st[h.off(i, j)] = w.m[i*h.C+j]
		}
	}
}

func (w *smWorld) fail(oracle, failure, format string, args ...interface{}) {
	w.c.Logf("last mutating operation: %s", w.last)
	w.c.Fail(oracle, "SparseMatrix|"+failure, format, args...)
}

func (w *smWorld) guard(op string, f func()) {
	if pv, site := core.Try(f); pv != nil {
		w.fail("no-panic", "panic-in:"+op+"|"+core.PanicClass(pv), "%s panicked in %s: %v  (model %dx%d %s)", op, site, pv, w.R, w.C, fmtVals(w.m))
	}
}

func RunSparseMatrix(c *core.Ctx) {
	t := c.Tape
	w := &smWorld{c: c, e: pickType(t), last: "init"}
	w.R, w.C = t.Range(0, 4), t.Range(0, 4)
	if t.Bool(4, 5) {
		w.R, w.C = t.Range(1, 4), t.Range(1, 4)
	}
	root := &smHandle{name: "a", a: ad.NullSparseMatrix(w.e.t, w.R, w.C), R: w.R, C: w.C}
	SC := w.C
	root.off = func(i, j int) int { return i*SC + j }
	w.SR, w.SC = w.R, w.C
	w.st = make([]float64, w.R*w.C)
	w.hs = []*smHandle{root}
	c.Logf("a = NullSparseMatrix(%s, %d, %d)", w.e.name, w.R, w.C)
	nops := t.Range(3, 45)
	for i := 0; i < nops; i++ {
		c.Steps++
		if t.Bool(1, 8) {
			w.viewStep()
		} else {
			h := w.hs[0]
			if len(w.hs) > 1 && t.Bool(1, 2) {
				h = w.hs[1+t.Choose(len(w.hs)-1)]
				w.viewOps++
			}
			w.load(h)
			if h != w.hs[0] {
				c.Logf("-- acting through %s (%dx%d view)", h.name, h.R, h.C)
			}
			w.step()
			w.store()
		}
		w.checkAllHandles()
	}
	for _, h := range w.hs {
		w.load(h)
		w.sweep()
		w.store()
	}
	w.checkAllHandles()
	c.Nontriv = w.muts >= 4 && len(w.st) >= 2
	c.Sample = map[string]interface{}{"element_type": w.e.name, "shape": fmt.Sprintf("%dx%d", w.R, w.C), "ops": nops, "mutations": w.muts, "operations_through_slice_views": w.viewOps}
}

func (w *smWorld) mutated(kind string) { w.last = kind; w.muts++ }

func (w *smWorld) operand(r, c int) (ad.Matrix, []float64, string) {
	t := w.c.Tape
	m := randVals(t, w.e, r*c)
	sp := t.Bool(1, 2)
	return mkMatrix(w.e, sp, r, c, m), m, storageName(sp)
}

func (w *smWorld) step() {
	t, c := w.c.Tape, w.c
	R, C := w.R, w.C
	nonempty := R > 0 && C > 0
	op := t.Pick([]int{12, 5, 5, 2, 3, 5, 3, 10, 4, 10, 3, 4, 2, 2})
	if !nonempty && (op == 0 || op == 1 || op == 5 || op == 6 || op == 11) {
		op = 2
	}
	switch op {
	case 0:
		i, j, x := t.Choose(R), t.Choose(C), val(t, w.e)
		c.Logf("a.At(%d,%d) <- %g", i, j, x)
		w.guard("At.Set", func() { w.a.At(i, j).SetFloat64(x) })
		w.m[i*C+j] = x
		w.mutated("At.Set")
	case 1:
		i, j := t.Choose(R), t.Choose(C)
		c.Logf("_ = a.At(%d,%d)", i, j)
		w.guard("At", func() { _ = w.a.At(i, j) })
		w.mutated("At(read-for-write)")
	case 2:
		o, om, st := w.operand(R, C)
		c.Logf("a.Set(%s %s)", st, fmtVals(om))
		w.guard("Set", func() { w.a.Set(o) })
		copy(w.m, om)
		w.mutated("Set(" + st + ")")
	case 3:
		c.Logf("a.Reset()")
		w.guard("Reset", func() { w.a.Reset() })
		for i := range w.m {
			w.m[i] = 0
		}
		w.mutated("Reset")
	case 4:
		c.Logf("a.SetIdentity()")
		w.guard("SetIdentity", func() { w.a.SetIdentity() })
		for i := 0; i < R; i++ {
			for j := 0; j < C; j++ {
				if i == j {
					w.m[i*C+j] = 1
				} else {
					w.m[i*C+j] = 0
				}
			}
		}
		w.mutated("SetIdentity")
	case 5:
		i1, j1, i2, j2 := t.Choose(R), t.Choose(C), t.Choose(R), t.Choose(C)
		c.Logf("a.Swap(%d,%d,%d,%d)", i1, j1, i2, j2)
		w.guard("Swap", func() { w.a.Swap(i1, j1, i2, j2) })
		w.m[i1*C+j1], w.m[i2*C+j2] = w.m[i2*C+j2], w.m[i1*C+j1]
		w.mutated("Swap")
	case 6:
		if R != C {
			return
		}
		i, j := t.Choose(R), t.Choose(R)
		rows := t.Bool(1, 2)
		var err error
		if rows {
			c.Logf("a.SwapRows(%d,%d)", i, j)
			w.guard("SwapRows", func() { err = w.a.SwapRows(i, j) })
			for k := 0; k < C; k++ {
				w.m[i*C+k], w.m[j*C+k] = w.m[j*C+k], w.m[i*C+k]
			}
		} else {
			c.Logf("a.SwapColumns(%d,%d)", i, j)
			w.guard("SwapColumns", func() { err = w.a.SwapColumns(i, j) })
			for k := 0; k < R; k++ {
				w.m[k*C+i], w.m[k*C+j] = w.m[k*C+j], w.m[k*C+i]
			}
		}
		if err != nil {
			w.fail("result", "SwapRows/Columns|error-on-valid", "returned %v on a square matrix", err)
		}
		w.mutated("SwapRows/Columns")
	case 7:
		w.arith()
	case 8:
		w.sweep()
	case 9:
		w.iterStep()
	case 10:
		w.iterWrite()
	case 11:
		w.accessors()
	case 12: // Tip on a matrix that owns its storage
		if len(w.hs) > 1 || w.cur != w.hs[0] {
			return
		}
		c.Logf("a.Tip()")
		w.guard("Tip", func() { w.a.Tip() })
		nm := make([]float64, len(w.m))
		for i := 0; i < R; i++ {
			for j := 0; j < C; j++ {
				nm[j*R+i] = w.m[i*C+j]
			}
		}
		w.m = nm
		w.R, w.C = C, R
		for _, it := range w.iters {
			it.zombie = true
		}
		w.mutated("Tip")
	case 13:
		if t.Bool(1, 2) {
			c.Logf("a.Map(x -> x+1)")
			w.guard("Map", func() { w.a.Map(func(s ad.Scalar) { s.SetFloat64(s.GetFloat64() + 1) }) })
			for i := range w.m {
				w.m[i] = w.e.norm(w.m[i] + 1)
			}
			w.mutated("Map")
		} else {
			c.Logf("a.MapSet(x -> 2x)")
			w.guard("MapSet", func() {
				w.a.MapSet(func(s ad.ConstScalar) ad.Scalar { return ad.NewScalar(w.e.t, 2*s.GetFloat64()) })
			})
			for i := range w.m {
				w.m[i] = w.e.norm(2 * w.m[i])
			}
			w.mutated("MapSet")
		}
		w.renorm()
	}
}

func (w *smWorld) renorm() {
	for k, x := range w.m {
		if x > 64 || x < -64 {
			nv := float64(int(x) % 5)
			i, j := k/w.C, k%w.C
			w.guard("At.Set", func() { w.a.At(i, j).SetFloat64(nv) })
			w.m[k] = nv
		}
	}
}

func (w *smWorld) arith() {
	t, c := w.c.Tape, w.c
	R, C := w.R, w.C
	res := make([]float64, R*C)
	kind := t.Choose(10)
	var name string
	switch kind {
	case 8:
		// division by a matrix without zeros
		a, am, sa := w.operand(R, C)
		_, bm, sb := w.operand(R, C)
		bm = nonzero(bm)
		b := mkMatrix(w.e, sb == storageName(true), R, C, bm)
		name = "MdivM"
		for i := range res {
			res[i] = w.e.norm(am[i] / bm[i])
		}
		c.Logf("a.MdivM(%s %s, %s %s)", sa, fmtVals(am), sb, fmtVals(bm))
		w.guard(name, func() { w.a.MdivM(a, b) })
	case 9:
		a, am, sa := w.operand(R, C)
		x := nzval(t, w.e)
		name = "MdivS"
		for i := range res {
			res[i] = w.e.norm(am[i] / x)
		}
		c.Logf("a.MdivS(%s %s, %g)", sa, fmtVals(am), x)
		w.guard(name, func() { w.a.MdivS(a, ad.NewScalar(w.e.t, x)) })
	case 0, 1, 2:
		a, am, sa := w.operand(R, C)
		b, bm, sb := w.operand(R, C)
		name = []string{"MaddM", "MsubM", "MmulM"}[kind]
		for i := range res {
			switch kind {
			case 0:
				res[i] = w.e.norm(am[i] + bm[i])
			case 1:
				res[i] = w.e.norm(am[i] - bm[i])
			case 2:
				res[i] = w.e.norm(am[i] * bm[i])
			}
		}
		c.Logf("a.%s(%s %s, %s %s)", name, sa, fmtVals(am), sb, fmtVals(bm))
		w.guard(name, func() {
			switch kind {
			case 0:
				w.a.MaddM(a, b)
			case 1:
				w.a.MsubM(a, b)
			case 2:
				w.a.MmulM(a, b)
			}
		})
	case 3, 4, 5:
		a, am, sa := w.operand(R, C)
		x := val(t, w.e)
		name = []string{"MaddS", "MsubS", "MmulS"}[kind-3]
		for i := range res {
			switch kind {
			case 3:
				res[i] = w.e.norm(am[i] + x)
			case 4:
				res[i] = w.e.norm(am[i] - x)
			case 5:
				res[i] = w.e.norm(am[i] * x)
			}
		}
		c.Logf("a.%s(%s %s, %g)", name, sa, fmtVals(am), x)
		s := ad.NewScalar(w.e.t, x)
		w.guard(name, func() {
			switch kind {
			case 3:
				w.a.MaddS(a, s)
			case 4:
				w.a.MsubS(a, s)
			case 5:
				w.a.MmulS(a, s)
			}
		})
	case 6:
		if R == 0 || C == 0 {
			return
		}
		k := t.Range(1, 3)
		a, am, sa := w.operand(R, k)
		b, bm, sb := w.operand(k, C)
		name = "MdotM"
		for i := 0; i < R; i++ {
			for j := 0; j < C; j++ {
				s := 0.0
				for q := 0; q < k; q++ {
					s = w.e.norm(s + w.e.norm(am[i*k+q]*bm[q*C+j]))
				}
				res[i*C+j] = s
			}
		}
		c.Logf("a.MdotM(%s %dx%d %s, %s %dx%d %s)", sa, R, k, fmtVals(am), sb, k, C, fmtVals(bm))
		w.guard(name, func() { w.a.MdotM(a, b) })
	case 7:
		if R == 0 || C == 0 {
			return
		}
		um := randVals(t, w.e, R)
		vm := randVals(t, w.e, C)
		su, sv := t.Bool(1, 2), t.Bool(1, 2)
		name = "Outer"
		for i := 0; i < R; i++ {
			for j := 0; j < C; j++ {
				res[i*C+j] = w.e.norm(um[i] * vm[j])
			}
		}
		c.Logf("a.Outer(%s %s, %s %s)", storageName(su), fmtVals(um), storageName(sv), fmtVals(vm))
		w.guard(name, func() { w.a.Outer(mkVector(w.e, su, um), mkVector(w.e, sv, vm)) })
	}
	for i := range res {
		if res[i] == 0 {
			res[i] = 0
		}
	}
	copy(w.m, res)
	w.mutated(name)
	w.renorm()
}

func (w *smWorld) accessors() {
	t := w.c.Tape
	R, C := w.R, w.C
	i, j := t.Choose(R), t.Choose(C)
	cmpVec := func(what string, v ad.ConstVector, want []float64) {
		var d int
		w.guard(what, func() { d = v.Dim() })
		if d != len(want) {
			w.fail("model", what+"|Dim", "%s: Dim()=%d, expected %d", what, d, len(want))
		}
		for k := range want {
			var x float64
			w.guard(what, func() { x = v.Float64At(k) })
			if x != want[k] {
				w.fail("model", what+"|wrong-value", "%s element %d = %g, model %g (matrix %dx%d %s)", what, k, x, want[k], R, C, fmtVals(w.m))
			}
		}
	}
	row := append([]float64(nil), w.m[i*C:(i+1)*C]...)
	col := make([]float64, R)
	for k := 0; k < R; k++ {
		col[k] = w.m[k*C+j]
	}
	switch t.Choose(9) {
	case 0:
		var v ad.Vector
		w.guard("Row", func() { v = w.a.Row(i) })
		cmpVec("Row", v, row)
	case 1:
		var v ad.Vector
		w.guard("Col", func() { v = w.a.Col(j) })
		cmpVec("Col", v, col)
	case 2:
		var v ad.ConstVector
		w.guard("ConstRow", func() { v = w.a.ConstRow(i) })
		cmpVec("ConstRow", v, row)
	case 3:
		var v ad.ConstVector
		w.guard("ConstCol", func() { v = w.a.ConstCol(j) })
		cmpVec("ConstCol", v, col)
	case 4:
		if R == C {
			d := make([]float64, R)
			for k := range d {
				d[k] = w.m[k*C+k]
			}
			var v ad.Vector
			w.guard("Diag", func() { v = w.a.Diag() })
			cmpVec("Diag", v, d)
		}
	case 5:
		var tm ad.Matrix
		w.guard("T", func() { tm = w.a.T() })
		for p := 0; p < C; p++ {
			for q := 0; q < R; q++ {
				var x float64
				w.guard("T.Float64At", func() { x = tm.Float64At(p, q) })
				if x != w.m[q*C+p] {
					w.fail("model", "T|wrong-value", "T().At(%d,%d)=%g, model At(%d,%d)=%g", p, q, x, q, p, w.m[q*C+p])
				}
			}
		}
	case 6:
		var v ad.Vector
		w.guard("AsVector", func() { v = w.a.AsVector() })
		got := make([]float64, v.Dim())
		for k := range got {
			got[k] = v.Float64At(k)
		}
		want := append([]float64(nil), w.m...)
		sort.Float64s(got)
		sort.Float64s(want)
		same := len(got) == len(want)
		for k := 0; same && k < len(got); k++ {
			same = got[k] == want[k] // numeric: -0 equals 0
		}
		if !same {
			w.fail("model", "AsVector|wrong-elements", "AsVector() holds %v, the matrix holds %v", got, want)
		}
	case 7:
		same := mkMatrix(w.e, t.Bool(1, 2), R, C, w.m)
		var eq bool
		w.guard("Equals", func() { eq = w.a.Equals(same, 1e-12) })
		if !eq {
			w.fail("model", "Equals|false-on-equal", "Equals(matrix holding the model %s) = false", fmtVals(w.m))
		}
		diff := append([]float64(nil), w.m...)
		diff[i*C+j] += 1
		other := mkMatrix(w.e, t.Bool(1, 2), R, C, diff)
		w.guard("Equals", func() { eq = w.a.Equals(other, 1e-12) })
		if eq {
			w.fail("model", "Equals|true-on-different", "Equals(%s) = true although the model is %s", fmtVals(diff), fmtVals(w.m))
		}
	case 8:
		var sym bool
		w.guard("IsSymmetric", func() { sym = w.a.IsSymmetric(1e-12) })
		want := R == C
		for p := 0; p < R && want; p++ {
			for q := 0; q < C; q++ {
				if w.m[p*C+q] != w.m[q*C+p] {
					want = false
					break
				}
			}
		}
		if sym != want {
			w.fail("model", "IsSymmetric|wrong", "IsSymmetric()=%v, model says %v (%dx%d %s)", sym, want, R, C, fmtVals(w.m))
		}
		w.guard("String", func() { _ = fmt.Sprint(w.a) })
		w.guard("Table", func() { _ = w.a.Table() })
	}
}

/* iterators ---------------------------------------------------------------------- */

func (w *smWorld) nextNonzero(from int) (int, bool) {
	for k := from; k < len(w.m); k++ {
		if w.m[k] != 0 {
			return k, true
		}
	}
	return 0, false
}

func (w *smWorld) observe(k int, want int, ok bool, what string) {
	h := w.iters[k]
	var gotOk bool
	w.guard(what+".Ok", func() { gotOk = h.it.Ok() })
	if gotOk != ok {
		w.fail("iteration", what+"|Ok-mismatch", "it%d after %s: Ok()=%v but the model says %v (next non-zero row-major position %d), model %dx%d %s", k, what, gotOk, ok, want, w.R, w.C, fmtVals(w.m))
	}
	h.alive = ok
	if !ok {
		return
	}
	var i, j int
	var x float64
	w.guard(what+".Index/Get", func() {
		i, j = h.it.Index()
		if s := h.it.GetConst(); s != nil {
			x = s.GetFloat64()
		}
	})
	if i*w.C+j != want || i < 0 || j < 0 || j >= w.C {
		w.fail("iteration", what+"|wrong-position", "it%d after %s: Index()=(%d,%d), next non-zero position is (%d,%d), model %dx%d %s", k, what, i, j, want/w.C, want%w.C, w.R, w.C, fmtVals(w.m))
	}
	if x != w.m[want] {
		w.fail("iteration", what+"|wrong-value", "it%d at (%d,%d): value %g, model %g", k, i, j, x, w.m[want])
	}
	h.pos = want
}

func (w *smWorld) iterStep() {
	t, c := w.c.Tape, w.c
	if len(w.iters) < 3 && (len(w.iters) == 0 || t.Bool(1, 4)) {
		h := &smIter{}
		from := 0
		kind := t.Choose(3)
		if kind == 2 && (w.R == 0 || w.C == 0) {
			kind = 0
		}
		switch kind {
		case 0:
			w.guard("Iterator", func() { h.wit = w.a.Iterator(); h.it = constIterOf(h.wit) })
		case 1:
			w.guard("ConstIterator", func() { h.it = w.a.ConstIterator() })
		case 2:
			i, j := t.Choose(w.R), t.Choose(w.C)
			from = i*w.C + j
			w.guard("IteratorFrom", func() { h.wit = w.a.IteratorFrom(i, j); h.it = constIterOf(h.wit) })
		}
		c.Logf("it%d = a.Iterator(kind=%d, from=%d)", len(w.iters), kind, from)
		w.iters = append(w.iters, h)
		want, ok := w.nextNonzero(from)
		w.observe(len(w.iters)-1, want, ok, "Iterator")
		return
	}
	k := t.Choose(len(w.iters))
	h := w.iters[k]
	if h.zombie || !h.alive {
		if h.zombie {
			core.Try(func() {
				if h.it.Ok() {
					h.it.Next()
				}
			})
			c.Count("probe:stale-iterator-advanced-after-rebuild")
		}
		w.iters = append(w.iters[:k], w.iters[k+1:]...)
		return
	}
	c.Logf("it%d.Next() from %d", k, h.pos)
	w.guard("Iterator.Next", func() { h.it.Next() })
	c.Count("iterator-next")
	want, ok := w.nextNonzero(h.pos + 1)
	w.observe(k, want, ok, "Next")
}

type matIterAdapter struct{ ad.MatrixIterator }

func (a matIterAdapter) CloneConstIterator() ad.MatrixConstIterator { return nil }

func constIterOf(it ad.MatrixIterator) ad.MatrixConstIterator { return matIterAdapter{it} }

func (w *smWorld) iterWrite() {
	t, c := w.c.Tape, w.c
	for k, h := range w.iters {
		if h.alive && !h.zombie && h.wit != nil {
			x := val(t, w.e)
			c.Logf("it%d.Get().Set(%g) at %d", k, x, h.pos)
			var isnil bool
			w.guard("Iterator.Get.Set", func() {
				s := h.wit.Get()
				if s == nil {
					isnil = true
					return
				}
				s.SetFloat64(x)
			})
			if isnil {
				if w.m[h.pos] != 0 {
					w.fail("iteration", "Get|nil-on-nonzero", "it%d.Get() is nil at position %d which holds %g", k, h.pos, w.m[h.pos])
				}
				return
			}
			w.m[h.pos] = x
			w.mutated("Iterator.Get.Set")
			return
		}
	}
}

func (w *smWorld) pointCheck() {
	var r, cc int
	w.guard("Dims", func() { r, cc = w.a.Dims() })
	if r != w.R || cc != w.C {
		w.fail("model", "Dims|changed", "Dims()=(%d,%d), model %dx%d", r, cc, w.R, w.C)
	}
	for i := 0; i < w.R; i++ {
		for j := 0; j < w.C; j++ {
			var x, y float64
			w.guard("Float64At/ConstAt", func() {
				x = w.a.Float64At(i, j)
				y = w.a.ConstAt(i, j).GetFloat64()
			})
			if want := w.m[i*w.C+j]; x != want || y != want {
				w.fail("model", "read|wrong-value", "At(%d,%d) reads %g/%g, model %dx%d %s", i, j, x, y, w.R, w.C, fmtVals(w.m))
			}
		}
	}
	h := hashVals(w.m) ^ uint64(w.R)<<40
	for _, it := range w.iters {
		if it.alive && !it.zombie {
			h = h*31 + uint64(it.pos)
		} else {
			h = h*31 + 977
		}
	}
	w.c.State(h)
}

func (w *smWorld) sweep() {
	w.c.Logf("sweep: full ConstIterator pass")
	got := []int{}
	vals := []float64{}
	w.guard("ConstIterator-sweep", func() {
		n := 0
		for it := w.a.ConstIterator(); it.Ok(); it.Next() {
			i, j := it.Index()
			got = append(got, i*w.C+j)
			if s := it.GetConst(); s != nil {
				vals = append(vals, s.GetFloat64())
			} else {
				vals = append(vals, 0)
			}
			if n++; n > len(w.m)+3 {
				break
			}
		}
	})
	want := []int{}
	wv := []float64{}
	for k, x := range w.m {
		if x != 0 {
			want = append(want, k)
			wv = append(wv, x)
		}
	}
	same := len(got) == len(want) && len(vals) == len(wv)
	for k := 0; same && k < len(got); k++ {
		same = got[k] == want[k] && vals[k] == wv[k]
	}
	if !same {
		w.fail("iteration", "sweep|positions", "iteration visited row-major positions %v (values %v), non-zero positions are %v (values %v), model %dx%d %s", got, vals, want, wv, w.R, w.C, fmtVals(w.m))
	}
}

// viewStep creates a (nested) Slice view or forgets one.
func (w *smWorld) viewStep() {
	t := w.c.Tape
	if len(w.hs) >= 4 {
		k := 1 + t.Choose(len(w.hs)-1)
		w.c.Logf("drop %s", w.hs[k].name)
		w.hs = append(w.hs[:k], w.hs[k+1:]...)
		return
	}
	cands := []*smHandle{}
	for _, h := range w.hs {
		if h.depth < 2 {
			cands = append(cands, h)
		}
	}
	p := cands[t.Choose(len(cands))]
	r0 := t.Choose(p.R + 1)
	r1 := r0 + t.Choose(p.R-r0+1)
	c0 := t.Choose(p.C + 1)
	c1 := c0 + t.Choose(p.C-c0+1)
	nh := &smHandle{name: fmt.Sprintf("s%d", w.c.Steps), R: r1 - r0, C: c1 - c0, depth: p.depth + 1}
	poff := p.off
	nh.off = func(i, j int) int { return poff(r0+i, c0+j) }
	w.load(p)
	w.c.Logf("%s = %s.Slice(%d,%d,%d,%d)", nh.name, p.name, r0, r1, c0, c1)
	w.guard("Slice", func() { nh.a = p.a.Slice(r0, r1, c0, c1) })
	w.hs = append(w.hs, nh)
	if nh.depth == 2 {
		w.c.Count("probe:slice-of-slice")
	}
}

func (w *smWorld) checkAllHandles() {
	for _, h := range w.hs {
		w.load(h)
		w.pointCheck()
	}
}
