package world

import (
	"encoding/json"
	"fmt"

	ad "github.com/pbenner/autodiff"
	st "github.com/pbenner/autodiff/statistics"
	"github.com/pbenner/autodiff/statistics/generic"
	sd "github.com/pbenner/autodiff/statistics/scalarDistribution"
	vd "github.com/pbenner/autodiff/statistics/vectorDistribution"
	"verif/sim/core"
)

/* C12, scenario "iterator-clones" -------------------------------------------------
 *
 * A partially consumed iterator and its clone are two independent cursors on
 * the same (unchanged) container: whatever one of them does, the other still
 * yields exactly the remaining part of the sequence a fresh iterator yields.
 */

type anyIter interface {
	Ok() bool
	Next()
	key() string
	clone() anyIter
}

type vecConstIt struct{ it ad.VectorConstIterator }

func (a vecConstIt) Ok() bool  { return a.it.Ok() }
func (a vecConstIt) Next()     { a.it.Next() }
func (a vecConstIt) key() string {
	return fmt.Sprintf("%d:%s", a.it.Index(), readCell(a.it.GetConst()))
}
func (a vecConstIt) clone() anyIter { return vecConstIt{a.it.CloneConstIterator()} }

type vecIt struct{ it ad.VectorIterator }

func (a vecIt) Ok() bool       { return a.it.Ok() }
func (a vecIt) Next()          { a.it.Next() }
func (a vecIt) key() string    { return fmt.Sprintf("%d:%s", a.it.Index(), readCell(a.it.GetConst())) }
func (a vecIt) clone() anyIter { return vecIt{a.it.CloneIterator()} }

type vecJointIt struct{ it ad.VectorJointIterator }

func (a vecJointIt) Ok() bool { return a.it.Ok() }
func (a vecJointIt) Next()    { a.it.Next() }
func (a vecJointIt) key() string {
	s1, s2 := a.it.GetConst()
	c1, c2 := "nil", "nil"
	if s1 != nil {
		c1 = readCell(s1).String()
	}
	if s2 != nil {
		c2 = readCell(s2).String()
	}
	return fmt.Sprintf("%d:%s,%s", a.it.Index(), c1, c2)
}
func (a vecJointIt) clone() anyIter { return vecJointIt{a.it.CloneJointIterator()} }

type vecConstJointIt struct{ it ad.VectorConstJointIterator }

func (a vecConstJointIt) Ok() bool { return a.it.Ok() }
func (a vecConstJointIt) Next()    { a.it.Next() }
func (a vecConstJointIt) key() string {
	s1, s2 := a.it.GetConst()
	c1, c2 := "nil", "nil"
	if s1 != nil {
		c1 = readCell(s1).String()
	}
	if s2 != nil {
		c2 = readCell(s2).String()
	}
	return fmt.Sprintf("%d:%s,%s", a.it.Index(), c1, c2)
}
func (a vecConstJointIt) clone() anyIter { return vecConstJointIt{a.it.CloneConstJointIterator()} }

type matConstIt struct{ it ad.MatrixConstIterator }

func (a matConstIt) Ok() bool { return a.it.Ok() }
func (a matConstIt) Next()    { a.it.Next() }
func (a matConstIt) key() string {
	i, j := a.it.Index()
	return fmt.Sprintf("%d,%d:%s", i, j, readCell(a.it.GetConst()))
}
func (a matConstIt) clone() anyIter { return matConstIt{a.it.CloneConstIterator()} }

type matIt struct{ it ad.MatrixIterator }

func (a matIt) Ok() bool { return a.it.Ok() }
func (a matIt) Next()    { a.it.Next() }
func (a matIt) key() string {
	i, j := a.it.Index()
	return fmt.Sprintf("%d,%d:%s", i, j, readCell(a.it.GetConst()))
}
func (a matIt) clone() anyIter { return matIt{a.it.CloneIterator()} }

type matJointIt struct{ it ad.MatrixJointIterator }

func (a matJointIt) Ok() bool { return a.it.Ok() }
func (a matJointIt) Next()    { a.it.Next() }
func (a matJointIt) key() string {
	i, j := a.it.Index()
	s1, s2 := a.it.GetConst()
	c1, c2 := "nil", "nil"
	if s1 != nil {
		c1 = readCell(s1).String()
	}
	if s2 != nil {
		c2 = readCell(s2).String()
	}
	return fmt.Sprintf("%d,%d:%s,%s", i, j, c1, c2)
}
func (a matJointIt) clone() anyIter { return matJointIt{a.it.CloneJointIterator()} }

type vecMagicIt struct{ it ad.VectorMagicIterator }

func (a vecMagicIt) Ok() bool { return a.it.Ok() }
func (a vecMagicIt) Next()    { a.it.Next() }
func (a vecMagicIt) key() string {
	return fmt.Sprintf("%d:%s", a.it.Index(), readCell(a.it.GetMagic()))
}
func (a vecMagicIt) clone() anyIter { return vecMagicIt{a.it.CloneMagicIterator()} }

type matMagicIt struct{ it ad.MatrixMagicIterator }

func (a matMagicIt) Ok() bool { return a.it.Ok() }
func (a matMagicIt) Next()    { a.it.Next() }
func (a matMagicIt) key() string {
	i, j := a.it.Index()
	return fmt.Sprintf("%d,%d:%s", i, j, readCell(a.it.GetMagic()))
}
func (a matMagicIt) clone() anyIter { return matMagicIt{a.it.CloneMagicIterator()} }

func RunIteratorClones(c *core.Ctx) {
	t := c.Tape
	e := pickType(t)
	sparse, sparseOp := t.Bool(1, 2), t.Bool(1, 2)
	var mk func() anyIter
	var kind string
	if t.Bool(1, 2) {
		n := t.Range(1, 9)
		v := mkVector(e, sparse, intVals(t, n))
		o := mkVector(e, sparseOp, intVals(t, n))
		switch t.Choose(8) {
		case 4:
			kind = "Vector.MagicIterator"
			if mv, ok := v.(ad.MagicVector); ok {
				mk = func() anyIter { return vecMagicIt{mv.MagicIterator()} }
			} else {
				kind = "Vector.ConstIterator"
				mk = func() anyIter { return vecConstIt{v.ConstIterator()} }
			}
		case 5, 6:
			// a read-only sparse vector holding the same elements
			idx, val := []int{}, []float64{}
			for i := 0; i < n; i++ {
				if x := v.Float64At(i); x != 0 {
					idx, val = append(idx, i), append(val, x)
				}
			}
			cv := newSparseConst(t.Choose(7), idx, val, n)
			if t.Bool(1, 2) {
				kind = "SparseConstVector.ConstIterator"
				mk = func() anyIter { return vecConstIt{cv.ConstIterator()} }
			} else {
				kind = "SparseConstVector.ConstJointIterator"
				mk = func() anyIter { return vecConstJointIt{cv.ConstJointIterator(o)} }
			}
		case 7:
			// the gradient of a scalar seen as a vector
			s := ad.NewReal64(1)
			s.Alloc(n, 1)
			for i := 0; i < n; i++ {
				s.SetDerivative(i, v.Float64At(i))
			}
			g := ad.DenseGradient{S: s}
			if t.Bool(1, 2) {
				kind = "DenseGradient.ConstIterator"
				mk = func() anyIter { return vecConstIt{g.ConstIterator()} }
			} else {
				kind = "DenseGradient.ConstJointIterator"
				mk = func() anyIter { return vecConstJointIt{g.ConstJointIterator(o)} }
			}
		case 0:
			kind = "Vector.ConstIterator"
			mk = func() anyIter { return vecConstIt{v.ConstIterator()} }
		case 1:
			kind = "Vector.Iterator"
			mk = func() anyIter { return vecIt{v.Iterator()} }
		case 2:
			kind = "Vector.JointIterator"
			mk = func() anyIter { return vecJointIt{v.JointIterator(o)} }
		default:
			kind = "Vector.ConstJointIterator"
			mk = func() anyIter { return vecConstJointIt{v.ConstJointIterator(o)} }
		}
		c.Logf("%s on %s %s vector %v, operand %s %v", kind, storageName(sparse), e.name, v, storageName(sparseOp), o)
	} else {
		R, C := t.Range(1, 4), t.Range(1, 4)
		m := mkMatrix(e, sparse, R, C, intVals(t, R*C))
		o := mkMatrix(e, sparseOp, R, C, intVals(t, R*C))
		switch t.Choose(4) {
		case 3:
			kind = "Matrix.MagicIterator"
			if mm, ok := m.(ad.MagicMatrix); ok {
				mk = func() anyIter { return matMagicIt{mm.MagicIterator()} }
			} else {
				kind = "Matrix.ConstIterator"
				mk = func() anyIter { return matConstIt{m.ConstIterator()} }
			}
		case 0:
			kind = "Matrix.ConstIterator"
			mk = func() anyIter { return matConstIt{m.ConstIterator()} }
		case 1:
			kind = "Matrix.Iterator"
			mk = func() anyIter { return matIt{m.Iterator()} }
		default:
			kind = "Matrix.JointIterator"
			mk = func() anyIter { return matJointIt{m.JointIterator(o)} }
		}
		c.Logf("%s on %s %s matrix %dx%d %v, operand %s %v", kind, storageName(sparse), e.name, R, C, valuesOf(m), storageName(sparseOp), valuesOf(o))
	}
	kind = storageName(sparse) + kind
	fail := func(failure, format string, args ...interface{}) {
		c.Fail("independence", kind+"|"+failure, format, args...)
	}
	guard := func(op string, f func()) {
		if pv, site := core.Try(f); pv != nil {
			c.Fail("no-panic", kind+"|panic-in:"+op+"|"+core.PanicClass(pv), "%s panicked in %s: %v", op, site, pv)
		}
	}
	// reference sequence of a fresh iterator
	ref := []string{}
	guard("reference-iteration", func() {
		for it := mk(); it.Ok() && len(ref) < 64; it.Next() {
			ref = append(ref, it.key())
		}
	})
	c.Logf("reference sequence: %v", ref)
	type cursor struct {
		it  anyIter
		pos int
	}
	curs := []*cursor{}
	guard("create", func() { curs = append(curs, &cursor{it: mk()}) })
	nops := t.Range(3, 20)
	clones := 0
	for s := 0; s < nops; s++ {
		c.Steps++
		k := t.Choose(len(curs))
		cu := curs[k]
		if len(curs) < 4 && t.Bool(1, 3) {
			var cl anyIter
			guard("clone", func() { cl = cu.it.clone() })
			curs = append(curs, &cursor{it: cl, pos: cu.pos})
			clones++
			c.Logf("cursor%d = clone of cursor%d at position %d", len(curs)-1, k, cu.pos)
		} else if cu.pos < len(ref) {
			guard("Next", func() { cu.it.Next() })
			cu.pos++
			c.Logf("cursor%d.Next() -> position %d", k, cu.pos)
		}
		// every cursor must still be where it was
		for q, other := range curs {
			var ok bool
			var key string
			guard("Ok/Get", func() {
				ok = other.it.Ok()
				if ok {
					key = other.it.key()
				}
			})
			want := other.pos < len(ref)
			if ok != want {
				fail("Ok", "cursor%d at position %d of %d: Ok()=%v after cursor%d acted", q, other.pos, len(ref), ok, k)
			}
			if ok && key != ref[other.pos] {
				fail("element", "cursor%d at position %d yields %s, the sequence has %s there (after cursor%d acted)", q, other.pos, key, ref[other.pos], k)
			}
		}
		c.StateStr(fmt.Sprint(kind, len(curs), cu.pos))
	}
	c.Nontriv = clones > 0 && len(ref) >= 2
	c.Sample = map[string]interface{}{"iterator": kind, "sequence_length": len(ref), "clones": clones, "element_type": e.name}
}

/* C12, scenario "scalar-clones" ----------------------------------------------------- */

func RunScalarClones(c *core.Ctx) {
	t := c.Tape
	e := pickType(t)
	src := ad.NewScalar(e.t, float64(t.Range(-4, 4)))
	if ms, ok := src.(ad.MagicScalar); ok && t.Bool(2, 3) {
		other := ad.NewScalar(e.t, 1).(ad.MagicScalar)
		order := t.Range(1, 2)
		ad.Variables(order, ms, other)
		// give it a non-trivial derivative state: x*x + y
		ms.Mul(ms, ms)
		ms.Add(ms, other)
		c.Count("probe:derivatives-attached")
	}
	how := t.Choose(6)
	var cp ad.Scalar
	name := []string{"CloneScalar", "CloneConstScalar", "CloneMagicScalar", "NewScalar+Set", "typed-SET", "typed-MAX"}[how]
	fail := func(oracle, failure, format string, args ...interface{}) {
		c.Fail(oracle, "Scalar|"+name+"|"+failure, format, args...)
	}
	if pv, site := core.Try(func() {
		switch how {
		case 0:
			cp = src.CloneScalar()
		case 1:
			cp = src.CloneConstScalar().(ad.Scalar)
		case 2:
			if ms, ok := src.(ad.MagicScalar); ok {
				cp = ms.CloneMagicScalar()
			} else {
				cp = src.CloneScalar()
			}
		case 4, 5:
			// the concrete-typed copy paths (SET, and MAX(a, a) which copies
			// its larger operand) behind the typed vector and matrix methods
			switch a := src.(type) {
			case *ad.Real32:
				r := ad.NewReal32(0)
				if how == 4 {
					r.SET(a)
				} else {
					r.MAX(a, a)
				}
				cp = r
			case *ad.Real64:
				r := ad.NewReal64(0)
				if how == 4 {
					r.SET(a)
				} else {
					r.MAX(a, a)
				}
				cp = r
			default:
				cp = ad.NullScalar(e.t)
				cp.Set(src)
			}
		default:
			cp = ad.NullScalar(e.t)
			cp.Set(src)
		}
	}); pv != nil {
		fail("no-panic", "panic-in-copy", "%s panicked in %s: %v", name, site, pv)
	}
	full := func(s ad.ConstScalar) string {
		r := fmt.Sprintf("%g|o%d|n%d", s.GetFloat64(), s.GetOrder(), s.GetN())
		if s.GetOrder() >= 1 {
			for i := 0; i < s.GetN(); i++ {
				r += fmt.Sprintf("|d%g", s.GetDerivative(i))
			}
		}
		if s.GetOrder() >= 2 {
			for i := 0; i < s.GetN(); i++ {
				for j := 0; j < s.GetN(); j++ {
					r += fmt.Sprintf("|h%g", s.GetHessian(i, j))
				}
			}
		}
		return r
	}
	c.Logf("%s scalar %s copied by %s -> %s", e.name, full(src), name, full(cp))
	if full(src) != full(cp) {
		fail("equal-at-creation", "state", "copy %s differs from source %s", full(cp), full(src))
	}
	sides := []ad.Scalar{src, cp}
	snaps := []string{full(src), full(cp)}
	nops := t.Range(2, 10)
	for s := 0; s < nops; s++ {
		c.Steps++
		k := t.Choose(2)
		x := sides[k]
		op := t.Choose(6)
		c.Logf("side %d: mutation %d", k, op)
		core.Try(func() {
			switch op {
			case 0:
				x.SetFloat64(float64(t.Range(-4, 4)))
			case 1:
				x.Add(x, ad.NewScalar(e.t, 1))
			case 2:
				x.Mul(x, x)
			case 3:
				x.Reset()
			case 4:
				if ms, ok := x.(ad.MagicScalar); ok {
					ad.Variables(2, ms)
				}
			case 5:
				if ms, ok := x.(ad.MagicScalar); ok && ms.GetOrder() >= 1 && ms.GetN() > 0 {
					ms.SetDerivative(0, 7)
					if ms.GetOrder() >= 2 {
						ms.SetHessian(0, 0, 9)
					}
				}
			}
		})
		snaps[k] = full(x)
		if now := full(sides[1-k]); now != snaps[1-k] {
			fail("independence", "mutation-visible", "mutating side %d changed side %d: was %s, is %s", k, 1-k, snaps[1-k], now)
		}
		c.StateStr(snaps[0] + "/" + snaps[1])
	}
	c.Nontriv = true
	c.Sample = map[string]interface{}{"element_type": e.name, "copy_by": name, "final": snaps}
}

/* C12, scenario "distribution-parameters" ---------------------------------------------
 *
 * Distribution constructors clone the parameter scalars they are given, and
 * CloneScalarPdf gives an independent distribution.
 */

type pdfLike interface {
	GetParameters() ad.Vector
	SetParameters(ad.Vector) error
	LogPdf(r ad.Scalar, x ad.ConstScalar) error
}

func RunDistributionParams(c *core.Ctx) {
	t := c.Tape
	real := ad.Real64Type
	p1 := ad.NewScalar(real, float64(t.Range(1, 5))/2+0.25)
	p2 := ad.NewScalar(real, float64(t.Range(1, 5))/2+0.25)
	p3 := ad.NewScalar(real, float64(t.Range(1, 3))/4)
	var d pdfLike
	var clone func() pdfLike
	var err error
	fam := t.Choose(12)
	names := []string{"Normal", "Gamma", "Beta", "Cauchy", "Exponential", "Laplace", "Pareto", "Poisson", "Geometric", "NegativeBinomial", "Gev", "GeneralizedGamma"}
	name := names[fam]
	params := []ad.Scalar{p1, p2}
	switch fam {
	case 0:
		x, e := sd.NewNormalDistribution(p1, p2)
		d, err, clone = x, e, func() pdfLike { return x.CloneScalarPdf().(pdfLike) }
	case 1:
		x, e := sd.NewGammaDistribution(p1, p2)
		d, err, clone = x, e, func() pdfLike { return x.CloneScalarPdf().(pdfLike) }
	case 2:
		x, e := sd.NewBetaDistribution(p1, p2, t.Bool(1, 2))
		d, err, clone = x, e, func() pdfLike { return x.CloneScalarPdf().(pdfLike) }
	case 3:
		x, e := sd.NewCauchyDistribution(p1, p2)
		d, err, clone = x, e, func() pdfLike { return x.CloneScalarPdf().(pdfLike) }
	case 4:
		params = []ad.Scalar{p1}
		x, e := sd.NewExponentialDistribution(p1)
		d, err, clone = x, e, func() pdfLike { return x.CloneScalarPdf().(pdfLike) }
	case 5:
		x, e := sd.NewLaplaceDistribution(p1, p2)
		d, err, clone = x, e, func() pdfLike { return x.CloneScalarPdf().(pdfLike) }
	case 6:
		x, e := sd.NewParetoDistribution(p1, p2)
		d, err, clone = x, e, func() pdfLike { return x.CloneScalarPdf().(pdfLike) }
	case 7:
		params = []ad.Scalar{p1}
		x, e := sd.NewPoissonDistribution(p1)
		d, err, clone = x, e, func() pdfLike { return x.CloneScalarPdf().(pdfLike) }
	case 8:
		params = []ad.Scalar{p3}
		x, e := sd.NewGeometricDistribution(p3)
		d, err, clone = x, e, func() pdfLike { return x.CloneScalarPdf().(pdfLike) }
	case 9:
		params = []ad.Scalar{p1, p3}
		x, e := sd.NewNegativeBinomialDistribution(p1, p3)
		d, err, clone = x, e, func() pdfLike { return x.CloneScalarPdf().(pdfLike) }
	case 10:
		params = []ad.Scalar{p1, p2, p3}
		x, e := sd.NewGevDistribution(p1, p2, p3)
		d, err, clone = x, e, func() pdfLike { return x.CloneScalarPdf().(pdfLike) }
	case 11:
		params = []ad.Scalar{p1, p2, p3}
		x, e := sd.NewGeneralizedGammaDistribution(p1, p2, p3)
		d, err, clone = x, e, func() pdfLike { return x.CloneScalarPdf().(pdfLike) }
	}
	fail := func(failure, format string, args ...interface{}) {
		c.Fail("independence", "Distribution|"+name+"|"+failure, format, args...)
	}
	if err != nil {
		c.Logf("%s: constructor rejected the parameters: %v", name, err)
		c.Sample = map[string]interface{}{"family": name, "rejected": true}
		return
	}
	x := ad.NewScalar(real, 1)
	state := func(p pdfLike) string {
		r := ad.NewScalar(real, 0)
		s := fmt.Sprint(p.GetParameters())
		if pv, _ := core.Try(func() { p.LogPdf(r, x) }); pv == nil {
			s += fmt.Sprintf(" logpdf(1)=%v", r.GetFloat64())
		}
		return s
	}
	before := state(d)
	c.Logf("%s distribution: %s", name, before)
	// (1) the caller keeps its parameter scalars and changes them
	for _, p := range params {
		p.SetFloat64(p.GetFloat64() + 0.5)
	}
	if now := state(d); now != before {
		fail("constructor-shares-parameters", "changing the scalars passed to the constructor changed the distribution: was %s, is %s", before, now)
	}
	// (2) the vector returned by GetParameters is a copy
	gp := d.GetParameters()
	for i := 0; i < gp.Dim(); i++ {
		gp.At(i).SetFloat64(gp.At(i).GetFloat64() + 0.25)
	}
	if now := state(d); now != before {
		fail("GetParameters-shares", "writing to the vector returned by GetParameters changed the distribution: was %s, is %s", before, now)
	}
	// (3) a clone is independent in both directions
	var cl pdfLike
	if pv, site := core.Try(func() { cl = clone() }); pv != nil {
		c.Fail("no-panic", "Distribution|"+name+"|panic-in-clone", "CloneScalarPdf panicked in %s: %v", site, pv)
	}
	if s := state(cl); s != before {
		c.Fail("equal-at-creation", "Distribution|"+name+"|clone-differs", "clone is %s, source %s", s, before)
	}
	np := d.GetParameters()
	for i := 0; i < np.Dim(); i++ {
		np.At(i).SetFloat64(np.At(i).GetFloat64() * 1.5)
	}
	c.Steps += 3
	if t.Bool(1, 2) {
		if err := cl.SetParameters(np); err == nil {
			if now := state(d); now != before {
				fail("clone-shares", "SetParameters on the clone changed the source: was %s, is %s", before, now)
			}
		}
	} else {
		if err := d.SetParameters(np); err == nil {
			if now := state(cl); now != before {
				fail("clone-shares", "SetParameters on the source changed the clone: was %s, is %s", before, now)
			}
			// the vector handed to SetParameters stays the caller's
			after := state(d)
			for i := 0; i < np.Dim(); i++ {
				np.At(i).SetFloat64(np.At(i).GetFloat64() + 0.125)
			}
			if now := state(d); now != after {
				fail("SetParameters-shares", "changing the vector passed to SetParameters changed the distribution: was %s, is %s", after, now)
			}
		}
	}
	c.StateStr(name + before)
	c.Nontriv = true
	c.Sample = map[string]interface{}{"family": name, "parameters": before}
}

/* constructors of the compound models: the caller's vectors and matrices ---------------------- */

// RunModelConstructors: the constructors behind mixtures and HMMs are handed
// the caller's weight vector, initial distribution and transition matrix, on
// probability or on log scale; they normalise what they keep, so they must
// keep a copy.  After construction, and after mutating what was returned, the
// caller's objects are unchanged.
func RunModelConstructors(c *core.Ctx) {
	t := c.Tape
	n := t.Range(1, 4)
	isLog := t.Bool(1, 2)
	val := func() float64 {
		x := float64(t.Range(1, 9)) / 4 // deliberately not normalised
		if isLog {
			return -x
		}
		return x
	}
	pi := ad.NullDenseFloat64Vector(n)
	tr := ad.NullDenseFloat64Matrix(n, n)
	for i := 0; i < n; i++ {
		pi.At(i).SetFloat64(val())
		for j := 0; j < n; j++ {
			tr.At(i, j).SetFloat64(val())
		}
	}
	snap := func() string { return fmt.Sprint(pi, tr) }
	before := snap()
	kind := t.Choose(4)
	name := []string{"generic.NewHmmProbabilityVector", "generic.NewHmmTransitionMatrix", "generic.NewMixture", "vectorDistribution.NewHmm"}[kind]
	c.Logf("%s (isLog=%v) on pi=%v tr=%v", name, isLog, pi, tr)
	fail := func(failure, format string, args ...interface{}) {
		c.Fail("input-unchanged", "Constructor|"+name+"|"+failure, format, args...)
	}
	var mutate func()
	var err error
	if pv, site := core.Try(func() {
		switch kind {
		case 0:
			var r generic.HmmProbabilityVector
			r, err = generic.NewHmmProbabilityVector(pi, isLog)
			mutate = func() {
				if r.Vector != nil && r.Dim() > 0 {
					r.At(0).SetFloat64(-7)
					r.Normalize()
				}
			}
		case 1:
			var r generic.HmmTransitionMatrix
			r, err = generic.NewHmmTransitionMatrix(tr, isLog)
			mutate = func() {
				if r.Matrix != nil {
					r.At(0, 0).SetFloat64(-7)
					r.Normalize()
				}
			}
		case 2:
			if isLog {
				// weights are on probability scale only
				for i := 0; i < n; i++ {
					pi.At(i).SetFloat64(-pi.At(i).GetFloat64())
				}
				before = snap()
			}
			var r *generic.Mixture
			r, err = generic.NewMixture(pi)
			mutate = func() {
				if r != nil {
					r.LogWeights.At(0).SetFloat64(-7)
				}
			}
		default:
			if isLog {
				for i := 0; i < n; i++ {
					pi.At(i).SetFloat64(-pi.At(i).GetFloat64())
					for j := 0; j < n; j++ {
						tr.At(i, j).SetFloat64(-tr.At(i, j).GetFloat64())
					}
				}
				before = snap()
			}
			var r *vd.Hmm
			r, err = vd.NewHmm(pi, tr, nil, nil)
			mutate = func() {
				if r != nil {
					r.Pi.At(0).SetFloat64(-7)
					r.Tr.At(0, 0).SetFloat64(-7)
				}
			}
		}
	}); pv != nil {
		c.Logf("constructor panicked in %s: %v", site, pv)
		c.Count("op-panicked")
		return
	}
	c.Steps++
	if err != nil {
		c.Logf("constructor: %v", err)
	}
	if after := snap(); after != before {
		fail("changed-by-the-constructor", "%s changed the caller's objects: %s -> %s", name, before, after)
	}
	if mutate != nil {
		core.Try(mutate)
		c.Steps++
		if after := snap(); after != before {
			fail("changed-through-the-result", "mutating what %s returned changed the caller's objects: %s -> %s", name, before, after)
		}
	}
	c.Nontriv = n >= 2
	c.StateStr(fmt.Sprint(name, isLog, n))
	c.Sample = map[string]interface{}{"constructor": name, "log_scale": isLog, "states": n}
}

/* read-only operations on compound models ------------------------------------------------- */

// RunModelReadOnly: printing, exporting, cloning, evaluating and reading the
// parameters of a mixture or an HMM (with tied states, start and final state
// restrictions) are read-only: the model's configuration and its density at a
// probe point are the same afterwards, also after doing them twice.
func RunModelReadOnly(c *core.Ctx) {
	t := c.Tape
	real := ad.Real64Type
	mkNormal := func() st.ScalarPdf {
		d, err := sd.NewNormalDistribution(ad.NewScalar(real, float64(t.Range(-4, 4))/2), ad.NewScalar(real, float64(t.Range(1, 4))/2))
		if err != nil {
			panic(err)
		}
		return d
	}
	var model interface {
		ExportConfig() st.ConfigDistribution
		LogPdf(ad.Scalar, ad.ConstVector) error
		GetParameters() ad.Vector
		CloneVectorPdf() st.VectorPdf
	}
	name := ""
	probe := []float64{}
	if t.Bool(1, 3) {
		k := t.Range(1, 3)
		w := ad.NullDenseFloat64Vector(k)
		ed := make([]st.VectorPdf, k)
		for i := 0; i < k; i++ {
			w.At(i).SetFloat64(float64(t.Range(1, 4)))
			x, err := vd.NewScalarId(mkNormal())
			if err != nil {
				panic(err)
			}
			ed[i] = x
		}
		m, err := vd.NewMixture(w, ed)
		if err != nil {
			c.Logf("constructor: %v", err)
			return
		}
		model, name = m, fmt.Sprintf("vector mixture of %d", k)
		probe = []float64{0.5}
	} else {
		m := t.Range(1, 3)
		pi := ad.NullDenseFloat64Vector(m)
		tr := ad.NullDenseFloat64Matrix(m, m)
		for i := 0; i < m; i++ {
			pi.At(i).SetFloat64(float64(t.Range(1, 4)))
			for j := 0; j < m; j++ {
				tr.At(i, j).SetFloat64(float64(t.Range(1, 4)))
			}
		}
		var stateMap []int
		nem := m
		if m > 1 && t.Bool(1, 3) {
			stateMap = make([]int, m)
			for i := 1; i < m; i++ {
				stateMap[i] = i - 1
			}
			nem = m - 1
		}
		ed := make([]st.ScalarPdf, nem)
		for i := range ed {
			ed[i] = mkNormal()
		}
		h, err := vd.NewHmm(pi, tr, stateMap, ed)
		if err != nil {
			c.Logf("constructor: %v", err)
			return
		}
		name = fmt.Sprintf("hmm with %d states, state map %v", m, stateMap)
		if t.Bool(1, 2) {
			s := []int{t.Choose(m)}
			if h.SetStartStates(s) == nil {
				name += fmt.Sprintf(", start %v", s)
			}
		}
		if t.Bool(1, 2) {
			s := []int{t.Choose(m)}
			if h.SetFinalStates(s) == nil {
				name += fmt.Sprintf(", final %v", s)
			}
		}
		model = h
		for i := t.Range(1, 4); i > 0; i-- {
			probe = append(probe, float64(t.Range(-4, 4))/2)
		}
	}
	x := ad.NewDenseFloat64Vector(probe)
	finger := func() string {
		r := ad.NewReal64(0)
		var err error
		var cfg st.ConfigDistribution
		if pv, _ := core.Try(func() { err = model.LogPdf(r, x); cfg = model.ExportConfig() }); pv != nil {
			return fmt.Sprint("panic: ", pv)
		}
		b, _ := json.Marshal(cfg)
		return fmt.Sprintf("%.12g|%v|%s", r.GetFloat64(), err, b)
	}
	before := finger()
	c.Logf("%s; probe %v", name, probe)
	nops := t.Range(1, 5)
	for k := 0; k < nops; k++ {
		c.Steps++
		op := t.Choose(5)
		opName := []string{"String", "ExportConfig", "CloneVectorPdf", "GetParameters", "LogPdf"}[op]
		if pv, site := core.Try(func() {
			switch op {
			case 0:
				_ = fmt.Sprint(model)
			case 1:
				_ = model.ExportConfig()
			case 2:
				_ = model.CloneVectorPdf()
			case 3:
				_ = model.GetParameters()
			default:
				model.LogPdf(ad.NewReal64(0), x)
			}
		}); pv != nil {
			c.Logf("%s panicked in %s: %v", opName, site, pv)
			c.Count("op-panicked")
			continue
		}
		if after := finger(); after != before {
			c.Fail("operand-unchanged", "Model|"+opName+"|model-changed-by-a-read-only-operation", "%s changed the %s it was applied to: %s -> %s", opName, name, before, after)
		}
	}
	c.Nontriv = true
	c.StateStr(name)
	c.Sample = map[string]interface{}{"model": name, "ops": nops}
}
