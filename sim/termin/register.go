package termin

import (
	"verif/sim/core"
	"verif/sim/world"
)

func run(c *core.Ctx) {
	switch c.Scenario {
	case "linalg-degenerate":
		RunLinalg(c)
	case "optimizer-hostile-environment":
		RunOptim(c)
	case "caller-misuse":
		RunMisuse(c)
	case "saga-without-cap":
		RunSaga(c)
	case "optimizer-without-cap":
		RunNoCap(c)
	case "read-only-sparse-vectors":
		world.RunSparseConst(c)
	default:
		panic("unknown scenario " + c.Scenario)
	}
}

func init() {
	core.Register(&core.Property{
		ID:     "C20",
		Level:  "exploration",
		Engine: "E: step clock (+ misuse scenario of engine B)",
		Scenarios: []core.Scenario{
			{Name: "linalg-degenerate", Weight: 4},
			{Name: "optimizer-hostile-environment", Weight: 3, Faulty: true},
			{Name: "caller-misuse", Weight: 3, Faulty: true},
			{Name: "saga-without-cap", Weight: 1},
			{Name: "optimizer-without-cap", Weight: 1, Faulty: true},
			{Name: "read-only-sparse-vectors", Weight: 1},
		},
		Run:      run,
		Probes:   []core.FindingProbe{{ID: "C20-F1", Run: ProbeInSituShape}, {ID: "C20-F2", Run: ProbeDeterminantCost}},
		StepUnit: "loop iterations counted by the tick seam + objective / constraint callbacks + misuse calls",
		Rule: "linalg-degenerate: one matrix of a drawn degenerate structure (zero, identity, nilpotent, Jordan block, repeated / clustered eigenvalues, rank one, rank deficient, graded, complex pairs, zero leading column, SPD, random, non-finite entry; n = 0..6, float64 or real64) handed to one of 13 algorithms with drawn options under the step clock; each loop site has a polynomial budget taken from the literature (30 n^2 QR sweeps, 75 n^2 SVD sweeps, 100 Denman-Beavers iterations). optimizer-hostile-environment: 8 optimizers on a separable quadratic whose objective is NaN / NaN-gradient / an error outside (or inside) a ball and whose constraint predicate is a pure function (false everywhere, false at the start only, true in a ball, half space), always with an iteration cap K; budget K+1 per outer loop, 1100 halvings per back-tracking loop. saga-without-cap: saga.Run (four objective types) with its default cap (the largest int) on problems whose iterate becomes stationary (dominating l1 penalty, zero data at the origin, small ordinary problems); the hook is the clock: a hook call after an epoch that did not move the iterate at all means the routine walked past its own stopping rule (no epoch budget is derivable: the rule is relative and a run converging towards 0 legitimately goes on until the iterate underflows; such runs are ended by the hook after 20000 epochs and not judged). optimizer-without-cap: BFGS, Rprop, Newton crit / min and Adam with their default cap on a separable quadratic that is NaN / NaN-gradient / an error everywhere except at the starting point (pure function of x: no step can be accepted, the routine has to give up); the evaluation counter is the clock (budget 400000). caller-misuse: 1..6 inadmissible calls (index outside a view but inside its parent, slice bounds outside, mismatched shapes, invalid permutations, derivative order 3, different numbers of variables, sparse vector / constant vector / matrix constructors handed a position outside the object) on a dense or sparse matrix view; a call that returns normally must not have read or written outside the object, changed a shape or left an unreadable object. Non-trivial = n >= 2 / hostile element present / always. Distinct = (algorithm, options, structure, dimension, outcome) resp. (routine, environment kinds, outcome) resp. (storage, call kind, element type).",
		Assumptions: []string{
			"budgets are per loop site and dimension; a routine that needs more sweeps than LAPACK grants is reported",
			"a panic or an error is an acceptable outcome for degenerate input (the property asks for termination and loud failure, not for a result)",
			"shape mismatches that the library tolerates are counted (accepted-mismatch), and only reported when they change a shape, write outside the view or leave an unreadable object",
			"every optimizer is given an explicit iteration cap K (gradient descent, whose API has none, through its hook): an outer optimisation loop that has not converged ends at the caller's cap; what must end on its own are the inner loops (line search, back-tracking, constraint halving), and those are budgeted",
			"hostile option values: the first trial step of the line search is drawn from {1, 0.5, 4, 1e308, +Inf, NaN, -1, 0}",
			"loops without a tick are covered by the driver's stall watchdog only (a stall reproduced in two fresh processes is reported as a hang)",
		},
		RealCode:     []string{"algorithm/* with verifhook.Tick (build tag verif), all container types"},
		Stubs:        []string{"objective, gradient and constraint callbacks (pure functions of x)"},
		Caps:         map[string]int{"n": 6, "iteration_cap_K": 40, "halvings_per_backtracking_loop": 1100},
		QuickRuns:    200000,
		ThoroughRuns: 4000000,
		MarkEveryRun: true,
	})
}
