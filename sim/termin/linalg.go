// Package termin is engine E: the step clock.  Time in this library is loop
// iterations; every data dependent loop ticks through verifhook.Tick (build
// tag verif), and each loop site has a polynomial budget that is stated here
// independently of the implementation.  The workload is the degenerate
// structure the property lists; a run that exceeds a budget is a
// deterministic, replayable liveness violation.
package termin

import (
	"fmt"
	"math"

	ad "github.com/pbenner/autodiff"
	"github.com/pbenner/autodiff/algorithm/cholesky"
	"github.com/pbenner/autodiff/algorithm/determinant"
	"github.com/pbenner/autodiff/algorithm/eigensystem"
	"github.com/pbenner/autodiff/algorithm/gramSchmidt"
	"github.com/pbenner/autodiff/algorithm/hessenbergReduction"
	"github.com/pbenner/autodiff/algorithm/householderBidiagonalization"
	"github.com/pbenner/autodiff/algorithm/householderTridiagonalization"
	"github.com/pbenner/autodiff/algorithm/matrixInverse"
	"github.com/pbenner/autodiff/algorithm/msqrt"
	"github.com/pbenner/autodiff/algorithm/msqrtInv"
	"github.com/pbenner/autodiff/algorithm/qrAlgorithm"
	"github.com/pbenner/autodiff/algorithm/svd"
	"verif/sim/core"
	"verif/sim/ticks"
)

// budgets: polynomial in the matrix dimension n, taken from the literature,
// not from the code: LAPACK's dhseqr allows 30 QR sweeps per eigenvalue
// (30 n^2 in total, we allow the same plus n), dbdsqr allows 6 n^2 sweeps
// ("maxitr") -- we grant 75 n^2; the Denman-Beavers iteration converges
// quadratically: 100 iterations cover condition numbers far beyond 1e300.
func linalgBudgets(n int) map[string]int {
	if n < 1 {
		n = 1
	}
	return map[string]int{
		"qr.francis": 30*n*n + n + 10,
		// cofactor expansion: open finding C20-F2; polynomial budget, which n <= 6 respects
		"determinant.minor": 10*n*n*n*n + 10,
		"qr.block2x2":       30*n*n + n + 10,
		"qr.symmetric":      30*n*n + n + 10,
		"svd.golubkahan":    75*n*n + 10,
		"msqrt.iter":        101, // 100 iterations and the loop entry that gives up
		"msqrtInv.iter":     101,
	}
}

/* degenerate matrices ----------------------------------------------------------- */

func genDegenerate(t *core.Tape, n, m int) (vals []float64, desc string) {
	vals = make([]float64, n*m)
	set := func(i, j int, x float64) {
		if i < n && j < m {
			vals[i*m+j] = x
		}
	}
	small := func() float64 { return float64(t.Range(-4, 4)) }
	k := t.Choose(16)
	if n == 0 || m == 0 {
		return vals, "empty"
	}
	switch k {
	case 0:
		desc = "zero"
	case 1:
		desc = "identity"
		for i := 0; i < n; i++ {
			set(i, i, 1)
		}
	case 2:
		c := small()
		desc = fmt.Sprintf("scaled identity %g", c)
		for i := 0; i < n; i++ {
			set(i, i, c)
		}
	case 3:
		desc = "nilpotent shift"
		for i := 0; i+1 < n; i++ {
			set(i, i+1, 1)
		}
	case 4:
		l := small()
		desc = fmt.Sprintf("Jordan block lambda=%g", l)
		for i := 0; i < n; i++ {
			set(i, i, l)
			set(i, i+1, 1)
		}
	case 5:
		c := small()
		desc = fmt.Sprintf("ones + %g I (repeated eigenvalues)", c)
		for i := 0; i < n; i++ {
			for j := 0; j < m; j++ {
				set(i, j, 1)
			}
			set(i, i, 1+c)
		}
	case 6:
		desc = "rank one u v'"
		u := make([]float64, n)
		v := make([]float64, m)
		for i := range u {
			u[i] = small()
		}
		for j := range v {
			v[j] = small()
		}
		for i := 0; i < n; i++ {
			for j := 0; j < m; j++ {
				set(i, j, u[i]*v[j])
			}
		}
	case 7:
		desc = "rank deficient (repeated rows)"
		row := make([]float64, m)
		for j := range row {
			row[j] = small()
		}
		for i := 0; i < n; i++ {
			f := small()
			for j := 0; j < m; j++ {
				set(i, j, f*row[j])
			}
		}
		if n > 1 {
			for j := 0; j < m; j++ {
				set(n-1, j, small())
			}
		}
	case 8:
		desc = "graded diagonal 10^-3k"
		for i := 0; i < n; i++ {
			set(i, i, math.Pow(10, -3*float64(i)))
			set(i, i+1, math.Pow(10, -3*float64(i)-1))
		}
	case 9:
		desc = "rotation blocks (complex pairs)"
		for i := 0; i+1 < n; i += 2 {
			set(i, i, 0)
			set(i, i+1, -1)
			set(i+1, i, 1)
			set(i+1, i+1, 0)
		}
		if n%2 == 1 {
			set(n-1, n-1, small())
		}
	case 10:
		desc = "random small integers"
		for i := range vals {
			vals[i] = small()
		}
	case 11:
		desc = "random symmetric"
		for i := 0; i < n; i++ {
			for j := i; j < m; j++ {
				x := small()
				set(i, j, x)
				set(j, i, x)
			}
		}
	case 12:
		desc = "symmetric positive definite"
		b := make([]float64, n*n)
		for i := range b {
			b[i] = small() / 2
		}
		for i := 0; i < n; i++ {
			for j := 0; j < m; j++ {
				s := 0.0
				for q := 0; q < n; q++ {
					if j < n {
						s += b[i*n+q] * b[j*n+q]
					}
				}
				set(i, j, s)
			}
			if i < m {
				set(i, i, vals[i*m+i]+float64(n))
			}
		}
	case 13:
		desc = "zero first column / zero leading diagonal"
		for i := range vals {
			vals[i] = small()
		}
		for i := 0; i < n; i++ {
			set(i, 0, 0)
		}
	case 14:
		desc = "symmetric with clustered eigenvalues"
		for i := 0; i < n; i++ {
			set(i, i, 1+float64(i%2)*1e-9)
			set(i, i+1, 1e-9)
			set(i+1, i, 1e-9)
		}
	case 15:
		desc = "non-finite entries"
		for i := range vals {
			vals[i] = small()
		}
		if len(vals) > 0 {
			vals[t.Choose(len(vals))] = []float64{math.NaN(), math.Inf(1), math.Inf(-1)}[t.Choose(3)]
		}
	}
	return
}

func minInt(a, b int) int {
	if a < b {
		return a
	}
	return b
}

func mkMat(real bool, vals []float64, n, m int) ad.Matrix {
	if real {
		return ad.NewDenseReal64Matrix(append([]float64(nil), vals...), n, m)
	}
	return ad.NewDenseFloat64Matrix(append([]float64(nil), vals...), n, m)
}

func dimsOf(m ad.ConstMatrix) string {
	if m == nil {
		return "nil"
	}
	r, c := m.Dims()
	return fmt.Sprintf("%dx%d", r, c)
}

// RunLinalg: one degenerate matrix, one algorithm, under the step clock.
func RunLinalg(c *core.Ctx) {
	t := c.Tape
	n := t.Pick([]int{1, 2, 4, 5, 4, 3, 2}) // 0..6
	real := t.Bool(1, 3)
	algs := []string{"qrAlgorithm", "qrAlgorithm", "eigensystem", "svd", "svd", "msqrt", "msqrtInv", "matrixInverse", "cholesky", "determinant", "hessenbergReduction", "gramSchmidt", "householderBidiagonalization", "householderTridiagonalization"}
	alg := algs[t.Choose(len(algs))]
	m := n
	if alg == "svd" || alg == "householderBidiagonalization" {
		m = n
		n = n + t.Choose(3) // rows >= cols
	}
	vals, desc := genDegenerate(t, n, m)
	opt := t.Choose(4)
	a := mkMat(real, vals, n, m)
	// single precision: the algorithms have dedicated float32 paths (cholesky)
	// or run their generic code with thresholds chosen for doubles
	single := !real && t.Bool(1, 5)
	if single {
		a = ad.AsDenseFloat32Matrix(a)
	}
	c.Logf("%s(opt=%d) on %dx%d %s matrix, real64=%v float32=%v: %v", alg, opt, n, m, desc, real, single, vals)
	var shapeErr string
	call := func() {
		switch alg {
		case "qrAlgorithm":
			h, u, err := qrAlgorithm.Run(a, qrAlgorithm.ComputeU{Value: opt&1 == 1}, qrAlgorithm.Symmetric{Value: opt&2 == 2})
			if err == nil {
				if dimsOf(h) != fmt.Sprintf("%dx%d", n, n) || (opt&1 == 1 && dimsOf(u) != fmt.Sprintf("%dx%d", n, n)) {
					shapeErr = fmt.Sprintf("H is %s, U is %s for a %dx%d input", dimsOf(h), dimsOf(u), n, n)
				}
			}
		case "eigensystem":
			ev, evec, err := eigensystem.Run(a, eigensystem.Symmetric{Value: opt&1 == 1}, eigensystem.ComputeEigenvectors{Value: opt&2 == 2})
			if err == nil {
				if ev == nil || ev.Dim() != n || (opt&2 == 2 && dimsOf(evec) != fmt.Sprintf("%dx%d", n, n)) {
					shapeErr = fmt.Sprintf("eigenvalues %v, eigenvectors %s for a %dx%d input", ev, dimsOf(evec), n, n)
				}
			}
		case "svd":
			h, u, v, err := svd.Run(a, svd.ComputeU{Value: opt&1 == 1}, svd.ComputeV{Value: opt&2 == 2})
			if err == nil {
				if h == nil || (opt&1 == 1 && dimsOf(u) != fmt.Sprintf("%dx%d", n, n)) || (opt&2 == 2 && dimsOf(v) != fmt.Sprintf("%dx%d", m, m)) {
					shapeErr = fmt.Sprintf("S is %s, U is %s, V is %s for a %dx%d input", dimsOf(h), dimsOf(u), dimsOf(v), n, m)
				}
			}
		case "msqrt":
			r, err := msqrt.Run(a)
			if err == nil && dimsOf(r) != fmt.Sprintf("%dx%d", n, n) {
				shapeErr = "result is " + dimsOf(r)
			}
		case "msqrtInv":
			r, err := msqrtInv.Run(a)
			if err == nil && dimsOf(r) != fmt.Sprintf("%dx%d", n, n) {
				shapeErr = "result is " + dimsOf(r)
			}
		case "matrixInverse":
			r, err := matrixInverse.Run(a, matrixInverse.PositiveDefinite{Value: opt&1 == 1})
			if err == nil && dimsOf(r) != fmt.Sprintf("%dx%d", n, n) {
				shapeErr = "result is " + dimsOf(r)
			}
		case "cholesky":
			l, _, err := cholesky.Run(a, cholesky.LDL{Value: opt&1 == 1}, cholesky.ForcePD{Value: opt&2 == 2})
			if err == nil && dimsOf(l) != fmt.Sprintf("%dx%d", n, n) {
				shapeErr = "L is " + dimsOf(l)
			}
		case "determinant":
			determinant.Run(a, determinant.PositiveDefinite{Value: opt&1 == 1}, determinant.LogScale{Value: opt == 3})
		case "hessenbergReduction":
			hessenbergReduction.Run(a, hessenbergReduction.ComputeU{Value: opt&1 == 1})
		case "gramSchmidt":
			gramSchmidt.Run(a)
		case "householderBidiagonalization":
			householderBidiagonalization.Run(a, householderBidiagonalization.ComputeU{Value: opt&1 == 1}, householderBidiagonalization.ComputeV{Value: opt&2 == 2})
		case "householderTridiagonalization":
			householderTridiagonalization.Run(a, householderTridiagonalization.ComputeU{Value: opt&1 == 1})
		}
	}
	dim := n
	if m > dim {
		dim = m
	}
	var pv interface{}
	var site string
	over, counts := ticks.Guard(linalgBudgets(dim), 10000, func() { pv, site = core.Try(call) })
	total := 0
	for _, v := range counts {
		total += v
	}
	c.Steps += total + 1
	structure := desc
	if i := len(structure); i > 12 {
		structure = structure[:12]
	}
	if over != nil {
		c.Fail("step-clock", alg+"|"+over.Site+"|budget-exceeded", "%s did not finish: loop %s was still running after %d iterations (budget %d for dimension %d) on the %dx%d %s matrix %v (options %d, real64=%v, float32=%v)", alg, over.Site, over.Ticks, linalgBudgets(dim)[over.Site], dim, n, m, desc, vals, opt, real, single)
	}
	switch {
	case pv != nil:
		c.Count("outcome:panic")
		c.Logf("panicked in %s: %v", site, pv)
	default:
		c.Count("outcome:returned")
	}
	if shapeErr != "" {
		c.Fail("result-shape", alg+"|wrong-shape", "%s returned without error but %s", alg, shapeErr)
	}
	c.Nontriv = n >= 2
	c.StateStr(fmt.Sprintf("%s|%d|%s|%d|%v|%v|%v", alg, opt, desc, n, real, single, pv != nil))
	c.Sample = map[string]interface{}{"algorithm": alg, "options": opt, "matrix": fmt.Sprintf("%dx%d %s", n, m, desc), "ticks": counts, "panicked": pv != nil}
}
