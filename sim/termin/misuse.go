package termin

import (
	"fmt"
	"math"
	"sort"

	ad "github.com/pbenner/autodiff"
	vd "github.com/pbenner/autodiff/statistics/vectorDistribution"
	ve "github.com/pbenner/autodiff/statistics/vectorEstimator"
	"verif/sim/core"
	"verif/sim/ticks"
)

/* caller misuse as a fault kind -----------------------------------------------------
 *
 * Inadmissible calls -- out-of-range indices (in particular: outside a view
 * but inside its parent), mismatched dimensions, slice bounds outside the
 * object, unsupported derivative orders, operands with different numbers of
 * variables -- must be reported by a panic or an error at the call.  A call
 * that returns normally is a violation if it read or wrote outside the
 * object, returned a result of the wrong shape or left an object that cannot
 * be read any more.
 */

var elemTypes = []struct {
	name string
	t    ad.ScalarType
}{
	{"float64", ad.Float64Type}, {"real64", ad.Real64Type}, {"float32", ad.Float32Type}, {"real32", ad.Real32Type},
	{"int", ad.IntType}, {"int64", ad.Int64Type}, {"int32", ad.Int32Type}, {"int16", ad.Int16Type}, {"int8", ad.Int8Type},
}

type mis struct {
	c              *core.Ctx
	e              int
	sparse         bool
	root           ad.Matrix
	R, C           int
	view           ad.Matrix
	r0, r1, c0, c1 int
	transposed     bool
	vr, vc         int // dims of the view
}

func (w *mis) class() string {
	s := "dense"
	if w.sparse {
		s = "sparse"
	}
	return s
}

func (w *mis) fail(oracle, failure, format string, args ...interface{}) {
	w.c.Fail(oracle, w.class()+"|"+failure, format, args...)
}

func (w *mis) snapshotRoot() []float64 {
	v := make([]float64, 0, w.R*w.C)
	for i := 0; i < w.R; i++ {
		for j := 0; j < w.C; j++ {
			v = append(v, w.root.Float64At(i, j))
		}
	}
	return v
}

func (w *mis) inView(i, j int) bool { return i >= w.r0 && i < w.r1 && j >= w.c0 && j < w.c1 }

// after: the objects must still be readable and nothing outside the view
// may have changed.
func (w *mis) after(op string, before []float64, viewWasReceiver bool) {
	var now []float64
	if pv, site := core.Try(func() {
		now = w.snapshotRoot()
		r, c := w.view.Dims()
		for i := 0; i < r; i++ {
			for j := 0; j < c; j++ {
				_ = w.view.Float64At(i, j)
			}
		}
		_ = fmt.Sprint(w.view)
	}); pv != nil {
		w.fail("not-corrupted", op+"|object-unreadable-afterwards", "after the inadmissible call %s the matrices cannot be read any more (panic in %s: %v)", op, site, pv)
	}
	for i := 0; i < w.R; i++ {
		for j := 0; j < w.C; j++ {
			if !w.inView(i, j) || !viewWasReceiver {
				if now[i*w.C+j] != before[i*w.C+j] && !(now[i*w.C+j] != now[i*w.C+j] && before[i*w.C+j] != before[i*w.C+j]) {
					w.fail("not-corrupted", op+"|element-outside-the-view-changed", "the inadmissible call %s returned normally and changed parent element (%d,%d) from %g to %g, which does not belong to the view rows [%d,%d) x cols [%d,%d)", op, i, j, before[i*w.C+j], now[i*w.C+j], w.r0, w.r1, w.c0, w.c1)
				}
			}
		}
	}
}

func RunMisuse(c *core.Ctx) {
	t := c.Tape
	w := &mis{c: c, e: t.Choose(len(elemTypes)), sparse: t.Bool(1, 2)}
	et := elemTypes[w.e]
	w.R, w.C = t.Range(1, 5), t.Range(1, 5)
	if w.sparse {
		w.root = ad.NullSparseMatrix(et.t, w.R, w.C)
	} else {
		w.root = ad.NullDenseMatrix(et.t, w.R, w.C)
	}
	for i := 0; i < w.R; i++ {
		for j := 0; j < w.C; j++ {
			if x := float64(t.Range(-3, 3)); x != 0 {
				w.root.At(i, j).SetFloat64(x)
			}
		}
	}
	w.r0 = t.Choose(w.R)
	w.r1 = w.r0 + 1 + t.Choose(w.R-w.r0)
	w.c0 = t.Choose(w.C)
	w.c1 = w.c0 + 1 + t.Choose(w.C-w.c0)
	if t.Bool(1, 4) {
		w.r0, w.r1, w.c0, w.c1 = 0, w.R, 0, w.C
	}
	w.view = w.root.Slice(w.r0, w.r1, w.c0, w.c1)
	w.vr, w.vc = w.r1-w.r0, w.c1-w.c0
	c.Logf("root = %s %s %dx%d %v; view = root.Slice(%d,%d,%d,%d)", w.class(), et.name, w.R, w.C, w.snapshotRoot(), w.r0, w.r1, w.c0, w.c1)
	nops := t.Range(1, 6)
	for k := 0; k < nops; k++ {
		c.Steps++
		w.op()
	}
	c.Nontriv = true
	c.Sample = map[string]interface{}{"storage": w.class(), "element_type": et.name, "root": fmt.Sprintf("%dx%d", w.R, w.C), "view": fmt.Sprintf("[%d,%d)x[%d,%d)", w.r0, w.r1, w.c0, w.c1), "calls": nops}
}

// badIndex returns an index outside [0,n): -1, n (the first one inside the
// parent, if the view is smaller), or n+k.
func badIndex(t *core.Tape, n int) int {
	switch t.Choose(3) {
	case 0:
		return -1
	case 1:
		return n
	}
	return n + t.Range(1, 3)
}

func (w *mis) op() {
	t, c := w.c.Tape, w.c
	et := elemTypes[w.e].t
	before := w.snapshotRoot()
	m := w.view
	vr, vc := w.vr, w.vc
	silent := func(op, what string) {
		w.fail("loud-failure", op+"|silently-accepted", "%s: %s returned normally (no panic, no error)", op, what)
	}
	type res struct {
		pv  interface{}
		err error
	}
	try := func(f func() error) res {
		var err error
		pv, _ := core.Try(func() { err = f() })
		return res{pv, err}
	}
	loud := func(r res) bool { return r.pv != nil || r.err != nil }
	mkV := func(n int) ad.Vector {
		var v ad.Vector
		if t.Bool(1, 2) {
			v = ad.NullSparseVector(et, n)
		} else {
			v = ad.NullDenseVector(et, n)
		}
		for i := 0; i < n; i++ {
			v.At(i).SetFloat64(float64(i%3 + 1))
		}
		return v
	}
	mkM := func(r, cc int) ad.Matrix {
		var a ad.Matrix
		if t.Bool(1, 2) {
			a = ad.NullSparseMatrix(et, r, cc)
		} else {
			a = ad.NullDenseMatrix(et, r, cc)
		}
		for i := 0; i < r; i++ {
			for j := 0; j < cc; j++ {
				a.At(i, j).SetFloat64(float64((i+j)%3 + 1))
			}
		}
		return a
	}
	kind := t.Choose(24)
	name := ""
	switch kind {
	case 0, 1: // element read outside the view
		i, j := t.Choose(vr), t.Choose(vc)
		if t.Bool(1, 2) {
			i = badIndex(t, vr)
		} else {
			j = badIndex(t, vc)
		}
		how := t.Choose(4)
		name = []string{"Float64At", "ConstAt", "At", "IntAt"}[how]
		c.Logf("view.%s(%d,%d) on a %dx%d view", name, i, j, vr, vc)
		var x float64
		r := try(func() error {
			switch how {
			case 0:
				x = m.Float64At(i, j)
			case 1:
				x = m.ConstAt(i, j).GetFloat64()
			case 2:
				x = m.At(i, j).GetFloat64()
			default:
				x = float64(m.IntAt(i, j))
			}
			return nil
		})
		if !loud(r) {
			silent(name+"-out-of-range", fmt.Sprintf("reading element (%d,%d) of a %dx%d view returned %g", i, j, vr, vc, x))
		}
		c.Count("misuse:index-out-of-view")
	case 2: // element write outside the view
		i, j := badIndex(t, vr), t.Choose(vc)
		if t.Bool(1, 2) {
			i, j = t.Choose(vr), badIndex(t, vc)
		}
		name = "At.Set"
		c.Logf("view.At(%d,%d).SetFloat64(9) on a %dx%d view", i, j, vr, vc)
		r := try(func() error { m.At(i, j).SetFloat64(9); return nil })
		if !loud(r) {
			silent("At.Set-out-of-range", fmt.Sprintf("writing element (%d,%d) of a %dx%d view", i, j, vr, vc))
		}
		c.Count("misuse:index-out-of-view")
	case 3: // Swap
		i1, j1, i2, j2 := t.Choose(vr), t.Choose(vc), badIndex(t, vr), t.Choose(vc)
		if t.Bool(1, 2) {
			i2, j2 = t.Choose(vr), badIndex(t, vc)
		}
		name = "Swap"
		c.Logf("view.Swap(%d,%d,%d,%d) on a %dx%d view", i1, j1, i2, j2, vr, vc)
		r := try(func() error { m.Swap(i1, j1, i2, j2); return nil })
		if !loud(r) {
			silent("Swap-out-of-range", fmt.Sprintf("Swap(%d,%d,%d,%d) on a %dx%d view", i1, j1, i2, j2, vr, vc))
		}
		c.Count("misuse:index-out-of-view")
	case 4: // Row / Col / ConstRow / ConstCol
		how := t.Choose(4)
		name = []string{"Row", "Col", "ConstRow", "ConstCol"}[how]
		i := badIndex(t, vr)
		if how%2 == 1 {
			i = badIndex(t, vc)
		}
		c.Logf("view.%s(%d) on a %dx%d view", name, i, vr, vc)
		r := try(func() error {
			switch how {
			case 0:
				_ = m.Row(i).Dim()
			case 1:
				_ = m.Col(i).Dim()
			case 2:
				v := m.ConstRow(i)
				for q := 0; q < v.Dim(); q++ {
					_ = v.Float64At(q)
				}
			default:
				v := m.ConstCol(i)
				for q := 0; q < v.Dim(); q++ {
					_ = v.Float64At(q)
				}
			}
			return nil
		})
		if !loud(r) {
			silent(name+"-out-of-range", fmt.Sprintf("%s(%d) of a %dx%d view", name, i, vr, vc))
		}
		c.Count("misuse:index-out-of-view")
	case 5: // Slice bounds outside the object
		a0, a1, b0, b1 := 0, vr, 0, vc
		switch t.Choose(4) {
		case 0:
			a1 = vr + t.Range(1, 2)
		case 1:
			b1 = vc + t.Range(1, 2)
		case 2:
			a0 = -1
		default:
			b0 = -1
		}
		name = "Slice"
		c.Logf("view.Slice(%d,%d,%d,%d) on a %dx%d view", a0, a1, b0, b1, vr, vc)
		var s ad.Matrix
		r := try(func() error { s = m.Slice(a0, a1, b0, b1); return nil })
		if !loud(r) {
			// a slice is lazy: it may be reported at the first access instead,
			// but then EVERY element outside the object must fail
			sr, sc := s.Dims()
			for i := 0; i < sr; i++ {
				for j := 0; j < sc; j++ {
					inside := a0+i >= 0 && a0+i < vr && b0+j >= 0 && b0+j < vc
					var x float64
					rr := try(func() error { x = s.Float64At(i, j); return nil })
					if !inside && !loud(rr) {
						silent("Slice-bounds-outside", fmt.Sprintf("Slice(%d,%d,%d,%d) of a %dx%d view was accepted and its element (%d,%d), which lies outside the sliced object, reads %g", a0, a1, b0, b1, vr, vc, i, j, x))
					}
				}
			}
		}
		c.Count("misuse:slice-bounds")
	case 6, 7, 8: // element-wise arithmetic with mismatched operand shapes
		dr, dc := vr, vc
		if t.Bool(1, 2) {
			dr += t.Range(1, 2)
		} else {
			dc += t.Range(1, 2)
		}
		if t.Bool(1, 3) && (vr > 1 || vc > 1) {
			dr, dc = vr, vc
			if vr > 1 && t.Bool(1, 2) {
				dr = vr - 1
			} else if vc > 1 {
				dc = vc - 1
			} else {
				dr = vr - 1
			}
		}
		a, b := mkM(dr, dc), mkM(vr, vc)
		how := t.Choose(4)
		name = []string{"MaddM", "MmulM", "Set", "MsubM"}[how]
		c.Logf("view.%s with a %dx%d operand on a %dx%d view", name, dr, dc, vr, vc)
		r := try(func() error {
			switch how {
			case 0:
				m.MaddM(a, b)
			case 1:
				m.MmulM(b, a)
			case 2:
				m.Set(a)
			default:
				m.MsubM(a, b)
			}
			return nil
		})
		if !loud(r) {
			if rr, cc := m.Dims(); rr != vr || cc != vc {
				w.fail("result-shape", name+"|receiver-shape-changed", "%s with a %dx%d operand changed the shape of the %dx%d receiver to %dx%d", name, dr, dc, vr, vc, rr, cc)
			}
			c.Count("accepted-mismatch:" + name)
		}
		c.Count("misuse:shape-mismatch")
	case 9: // matrix products with mismatching inner dimension
		k := t.Range(1, 3)
		a, b := mkM(vr, k), mkM(k+1, vc)
		name = "MdotM"
		c.Logf("view.MdotM(%dx%d, %dx%d) on a %dx%d view", vr, k, k+1, vc, vr, vc)
		r := try(func() error { m.MdotM(a, b); return nil })
		if !loud(r) {
			silent("MdotM-inner-dimension", fmt.Sprintf("MdotM of a %dx%d and a %dx%d matrix", vr, k, k+1, vc))
		}
		c.Count("misuse:shape-mismatch")
	case 10: // matrix-vector products
		how := t.Choose(3)
		name = []string{"MdotV", "VdotM", "Outer"}[how]
		c.Logf("%s with mismatching dimensions, view %dx%d", name, vr, vc)
		var r res
		switch how {
		case 0:
			rv, x := mkV(vr), mkV(vc+1)
			r = try(func() error { rv.MdotV(m, x); return nil })
		case 1:
			rv, x := mkV(vc), mkV(vr+1)
			r = try(func() error { rv.VdotM(x, m); return nil })
		default:
			u, v := mkV(vr+1), mkV(vc)
			r = try(func() error { m.Outer(u, v); return nil })
		}
		if !loud(r) {
			silent(name+"-dimension", fmt.Sprintf("%s with mismatching dimensions on a %dx%d view", name, vr, vc))
		}
		c.Count("misuse:shape-mismatch")
	case 11: // vector operations
		n := t.Range(1, 5)
		v := mkV(n)
		how := t.Choose(6)
		name = []string{"Vector.At", "Vector.VaddV", "Vector.Set", "Vector.Swap", "Vector.Slice", "Vector.AsMatrix"}[how]
		c.Logf("%s misuse on a vector of dimension %d (%T)", name, n, v)
		var r res
		detail := ""
		switch how {
		case 0:
			i := badIndex(t, n)
			var x float64
			r = try(func() error { x = v.ConstAt(i).GetFloat64(); v.At(i).SetFloat64(1); return nil })
			detail = fmt.Sprintf("element %d of a vector of dimension %d (read %g)", i, n, x)
		case 1:
			a, b := mkV(n+1), mkV(n)
			r = try(func() error { v.VaddV(a, b); return nil })
			detail = "VaddV with operands of dimension n+1 and n"
			if !loud(r) && v.Dim() == n {
				c.Count("accepted-mismatch:VaddV")
				r.err = fmt.Errorf("tolerated")
			}
		case 2:
			a := mkV(n + 1)
			r = try(func() error { v.Set(a); return nil })
			detail = "Set with a longer vector"
		case 3:
			i, j := t.Choose(n), badIndex(t, n)
			r = try(func() error {
				v.Swap(i, j)
				// the effect must be observable as a failure at the latest now
				for q := 0; q < v.Dim(); q++ {
					_ = v.Float64At(q)
				}
				for it := v.ConstIterator(); it.Ok(); it.Next() {
					if it.Index() < 0 || it.Index() >= n {
						panic(fmt.Sprintf("iteration reaches index %d", it.Index()))
					}
				}
				return nil
			})
			if r.pv == nil && r.err == nil {
				detail = fmt.Sprintf("Swap(%d,%d) on a vector of dimension %d", i, j, n)
			} else if r.pv != nil && fmt.Sprint(r.pv)[:9] == "iteration" {
				w.fail("not-corrupted", "Vector.Swap|entry-outside-the-vector", "Swap(%d,%d) on a vector of dimension %d returned normally and left an entry outside the vector: %v", i, j, n, r.pv)
			}
		case 4:
			lo, hi := 0, n+t.Range(1, 3)
			if t.Bool(1, 3) {
				lo, hi = -1, n
			}
			var s ad.Vector
			r = try(func() error { s = v.Slice(lo, hi); return nil })
			if !loud(r) {
				// lazily reported is fine, but elements outside must fail
				for q := 0; q < s.Dim(); q++ {
					if lo+q < 0 || lo+q >= n {
						var x float64
						rr := try(func() error { x = s.Float64At(q); return nil })
						if !loud(rr) {
							silent("Vector.Slice-bounds-outside", fmt.Sprintf("Slice(%d,%d) of a vector of dimension %d was accepted and element %d outside the vector reads %g", lo, hi, n, q, x))
						}
					}
				}
				r.err = fmt.Errorf("lazy")
			}
		default:
			r = try(func() error { _ = v.AsMatrix(n+1, 1); return nil })
			detail = "AsMatrix(n+1,1)"
		}
		if !loud(r) {
			silent(name, detail)
		}
		c.Count("misuse:vector")
	case 12: // derivative orders and variable counts
		how := t.Choose(4)
		name = []string{"Variables(3)", "SetVariable-order-3", "different-number-of-variables", "Variables-on-vector(3)"}[how]
		c.Logf("scalar misuse: %s", name)
		var r res
		switch how {
		case 0:
			x := ad.NewReal64(1)
			r = try(func() error { return ad.Variables(3, x) })
		case 1:
			x := ad.NewReal64(1)
			r = try(func() error { return x.SetVariable(0, 1, 3) })
		case 2:
			x, y, z := ad.NewReal64(1), ad.NewReal64(2), ad.NewReal64(3)
			ad.Variables(1, x)
			ad.Variables(1, y, z)
			// the receiver is a third scalar: with the receiver aliasing an
			// operand the check cannot work (aliasing is another property)
			res := ad.NewReal64(0)
			r = try(func() error { res.Add(x, y); return nil })
		default:
			v := ad.NullDenseReal64Vector(2)
			r = try(func() error { return v.Variables(3) })
		}
		if !loud(r) {
			silent(name, name)
		}
		c.Count("misuse:derivative-order")
	case 13: // permutations
		how := t.Choose(3)
		name = []string{"Vector.Permute-wrong-length", "Vector.Permute-invalid-entry", "PermuteRows-invalid-entry"}[how]
		c.Logf("%s", name)
		var r res
		switch how {
		case 0:
			v := mkV(3)
			r = try(func() error { return v.Permute([]int{0, 1}) })
		case 1:
			v := mkV(3)
			r = try(func() error { return v.Permute([]int{0, 3, 1}) })
		default:
			n := 3
			a := mkM(n, n)
			r = try(func() error { return a.PermuteRows([]int{0, n, 1}) })
		}
		if !loud(r) {
			silent(name, name)
		}
		c.Count("misuse:permutation")
	case 14: // Diag / SwapRows on non-square
		if vr == vc {
			return
		}
		name = "Diag-non-square"
		c.Logf("view.Diag() on a %dx%d view", vr, vc)
		r := try(func() error { _ = m.Diag(); return nil })
		if !loud(r) {
			silent(name, "Diag of a non-square matrix")
		}
		r = try(func() error { return m.SwapRows(0, 0) })
		c.Count("misuse:non-square")
	case 15: // iterator start outside
		i, j := badIndex(t, vr), t.Choose(vc)
		name = "IteratorFrom-out-of-range"
		c.Logf("view.ConstIteratorFrom(%d,%d) on a %dx%d view", i, j, vr, vc)
		r := try(func() error {
			for it := m.ConstIteratorFrom(i, j); it.Ok(); it.Next() {
				p, q := it.Index()
				if p < 0 || p >= vr || q < 0 || q >= vc {
					return nil // reported below through the element check
				}
			}
			return fmt.Errorf("no element outside visited")
		})
		if !loud(r) {
			silent(name, fmt.Sprintf("ConstIteratorFrom(%d,%d) on a %dx%d view visits elements outside the view", i, j, vr, vc))
		}
		c.Count("misuse:index-out-of-view")
	case 16: // constructor handed an index outside the object
		n := t.Range(1, 4)
		k := t.Choose(3) // sparse vector, sparse constant vector, sparse matrix
		bad := badIndex(t, n)
		idx := []int{bad}
		if t.Bool(1, 2) && n > 1 {
			idx = []int{t.Choose(n - 1), bad}
			if t.Bool(1, 2) {
				idx[0], idx[1] = idx[1], idx[0]
			}
		}
		name = []string{"NewSparseVector", "NewSparseConstVector", "NewSparseMatrix"}[k]
		c.Logf("%s(%s) with indices %v for dimension %d", name, elemTypes[w.e].name, idx, n)
		var made string
		r := try(func() error {
			made = construct(k, w.e, idx, n)
			return nil
		})
		if made == "n/a" {
			break
		}
		if !loud(r) {
			silent(name+"-index-out-of-range", fmt.Sprintf("%s with indices %v for an object of dimension %d was accepted and gave %s", name, idx, n, made))
		}
		c.Count("misuse:constructor-index")
	case 17: // read-only sparse vector: element access outside the vector
		n := t.Range(1, 4)
		i := badIndex(t, n)
		how := t.Choose(5)
		name = "SparseConstVector." + []string{"ConstAt", "Float64At", "IntAt", "Int8At", "ConstSlice"}[how]
		c.Logf("%s(%d) on a read-only sparse float64 vector of dimension %d", name, i, n)
		idx, val := []int{}, []float64{}
		for q := 0; q < n; q++ {
			if t.Bool(1, 2) {
				idx, val = append(idx, q), append(val, float64(q+1))
			}
		}
		v := ad.NewSparseConstFloat64Vector(idx, val, n)
		var x float64
		r := try(func() error {
			switch how {
			case 0:
				x = v.ConstAt(i).GetFloat64()
			case 1:
				x = v.Float64At(i)
			case 2:
				x = float64(v.IntAt(i))
			case 3:
				x = float64(v.Int8At(i))
			default:
				// bounds outside the vector: the slice, or reading the part of
				// it that lies outside, must fail
				lo, hi := 0, i
				if i < 0 {
					lo, hi = i, n
				}
				sl := v.ConstSlice(lo, hi)
				for q := 0; q < sl.Dim(); q++ {
					if lo+q < 0 || lo+q >= n {
						x = sl.Float64At(q)
						return nil
					}
				}
				return fmt.Errorf("nothing outside was readable")
			}
			return nil
		})
		if !loud(r) {
			silent(name+"-out-of-range", fmt.Sprintf("position %d of a read-only sparse vector of dimension %d reads %g", i, n, x))
		}
		c.Count("misuse:index-out-of-vector")
	case 18: // in-place transposition of a view
		name = "Tip"
		c.Logf("view.Tip() on a %dx%d view of a %dx%d matrix", vr, vc, w.R, w.C)
		if vr == w.R && vc == w.C {
			break // owns its storage: C10's business
		}
		root := w.snapshotRoot()
		var err error
		over, _ := ticks.Guard(map[string]int{"tip.cycle": 4*w.R*w.C + 8}, 100000, func() {
			pv, _ := core.Try(func() { m.Tip() })
			if pv != nil {
				err = fmt.Errorf("%v", pv)
			}
		})
		if over != nil {
			w.fail("step-clock", "Tip|view|budget-exceeded", "Tip() on a %dx%d view of a %dx%d matrix was still following a cycle after %d moves (the storage has %d elements)", vr, vc, w.R, w.C, over.Ticks, w.R*w.C)
		}
		c.Count("misuse:tip-on-view")
		if err == nil {
			// accepted: then the view must hold its former transpose and the
			// rest of the parent must be untouched -- checked by w.after()
			// through the parent snapshot for the part outside the view
			_ = root
		}
		// the view's shape may have changed legitimately: re-create it
		w.view = w.root.Slice(w.r0, w.r1, w.c0, w.c1)
		return
	case 19: // vector products / sums with shapes that do not fit, incl. empty matrices
		// The library is generated from templates per element type, so whether an
		// inadmissible call is reported cannot depend on the element type: the
		// same call is made for every type of a template family and must be
		// loud for all or for none.
		sparseRecv := t.Bool(1, 2)
		how := t.Choose(4)
		name = []string{"MdotV", "VdotM", "VaddV", "VmulV"}[how]
		n, mm := t.Range(0, 3), t.Range(0, 3)
		rd, od := n, mm // fitting dimensions of receiver and vector operand for MdotV
		if how == 1 {
			rd, od = mm, n
		}
		if how >= 2 {
			od = rd
		}
		// break exactly one of them
		if t.Bool(1, 2) {
			rd += t.Range(1, 2)
		} else {
			od += t.Range(1, 2)
		}
		c.Logf("%s: receiver (%s) of dimension %d, matrix %dx%d, vector operand of dimension %d", name, map[bool]string{true: "sparse", false: "dense"}[sparseRecv], rd, n, mm, od)
		outcome := map[string][]string{}
		for ei, et := range elemTypes {
			var r ad.Vector
			if sparseRecv {
				r = ad.NullSparseVector(et.t, rd)
			} else {
				r = ad.NullDenseVector(et.t, rd)
			}
			a := ad.NullDenseMatrix(et.t, n, mm)
			b := ad.NullDenseVector(et.t, od)
			b2 := ad.NullDenseVector(et.t, od+1)
			for q := 0; q < od; q++ {
				b.At(q).SetFloat64(1)
			}
			res := try(func() error {
				switch how {
				case 0:
					r.MdotV(a, b)
				case 1:
					r.VdotM(b, a)
				case 2:
					r.VaddV(b, b2)
				default:
					r.VmulV(b, b2)
				}
				return nil
			})
			fam := "plain"
			if et.name == "real64" || et.name == "real32" {
				fam = "real"
			}
			o := "silent"
			if loud(res) {
				o = "loud"
			}
			outcome[fam+":"+o] = append(outcome[fam+":"+o], et.name)
			_ = ei
		}
		for _, fam := range []string{"plain", "real"} {
			if l, q := outcome[fam+":loud"], outcome[fam+":silent"]; len(l) > 0 && len(q) > 0 {
				w.fail("loud-failure", name+"|shape-mismatch|reported-for-some-element-types-only", "%s with a receiver of dimension %d, a %dx%d matrix and a vector operand of dimension %d is reported for the element types %v but silently accepted for %v", name, rd, n, mm, od, l, q)
			}
		}
		c.Count("misuse:shape-mismatch-across-element-types")
		return
	case 20: // state restrictions of an HMM outside the model
		m := t.Range(2, 3)
		pi := ad.NullDenseFloat64Vector(m)
		tr := ad.NullDenseFloat64Matrix(m, m)
		for i := 0; i < m; i++ {
			pi.At(i).SetFloat64(1)
			for j := 0; j < m; j++ {
				tr.At(i, j).SetFloat64(float64(1 + (i+j)%2))
			}
		}
		h, err := vd.NewHmm(pi, tr, nil, nil)
		if err != nil {
			break
		}
		list := []int{t.Choose(m), m + t.Range(0, 3)}
		if t.Bool(1, 2) {
			list[0], list[1] = list[1], list[0]
		}
		final := t.Bool(1, 2)
		name = "Hmm.SetStartStates"
		if final {
			name = "Hmm.SetFinalStates"
		}
		c.Logf("%s(%v) on a model with %d states", name, list, m)
		cfg0 := fmt.Sprint(h.Hmm.ExportConfig())
		res := try(func() error {
			if final {
				return h.SetFinalStates(list)
			}
			return h.SetStartStates(list)
		})
		if !loud(res) {
			silent(name+"-outside-the-model", fmt.Sprintf("%s(%v) on a model with %d states", name, list, m))
		}
		if cfg1 := fmt.Sprint(h.Hmm.ExportConfig()); cfg1 != cfg0 {
			w.fail("not-corrupted", name+"|receiver-changed-by-a-rejected-call", "%s(%v) was rejected, but the model it was called on has changed: %s -> %s", name, list, cfg0, cfg1)
		}
		c.Count("misuse:invalid-state-restriction")
		return
	case 21: // data of inconsistent dimension handed to an estimator
		sparse := t.Bool(1, 2)
		dim := t.Range(1, 3)
		nrec := t.Range(2, 5)
		badAt := 1 + t.Choose(nrec-1) // never the first one
		name = "LogisticRegression.SetData"
		c.Logf("%s (sparse=%v): %d records of dimension %d, record %d has another dimension", name, sparse, nrec, dim+2, badAt)
		recs := make([]ad.ConstVector, nrec)
		for i := range recs {
			d := dim + 2
			if i == badAt {
				d += t.Range(1, 2)
			}
			v := make([]float64, d)
			v[0] = 1
			for q := 1; q < d-1; q++ {
				v[q] = float64(q)
			}
			v[d-1] = float64(i % 2)
			if sparse {
				idx, val := []int{}, []float64{}
				for q, x := range v {
					if x != 0 {
						idx, val = append(idx, q), append(val, x)
					}
				}
				recs[i] = ad.NewSparseConstFloat64Vector(idx, val, d)
			} else {
				recs[i] = ad.NewDenseFloat64Vector(v)
			}
		}
		est, err := ve.NewLogisticRegression(dim+1, sparse)
		if err != nil {
			break
		}
		res := try(func() error { return est.SetData(recs, nrec) })
		if !loud(res) {
			silent(name+"-inconsistent-dimensions", fmt.Sprintf("SetData with %d records of which record %d has another dimension", nrec, badAt))
		}
		c.Count("misuse:inconsistent-data")
		return
	case 22, 23: // an admissible bulk read of a (transposed) view must stay inside the view's bounds
		v, tr := m, false
		if !w.sparse && t.Bool(2, 3) {
			v, tr = m.T(), true
		}
		name = "AsVector"
		if tr {
			name = "T.AsVector"
		}
		r, cc := v.Dims()
		var av ad.Vector
		res := try(func() error { av = v.AsVector(); return nil })
		if loud(res) {
			w.fail("in-bounds", name+"|admissible-call-panicked", "%s on a %dx%d view panicked: %v", name, r, cc, res.pv)
		}
		if av.Dim() != r*cc {
			w.fail("in-bounds", name+"|result-of-the-wrong-shape", "%s on a %dx%d view returned %d elements", name, r, cc, av.Dim())
		}
		// the order in which AsVector lists the elements is not specified (storage
		// order for a transposed matrix): the elements are compared as multisets
		want, got := []float64{}, []float64{}
		for k := 0; k < r*cc && k < av.Dim(); k++ {
			i, j := k/cc, k%cc
			pi, pj := w.r0+i, w.c0+j
			if tr {
				pi, pj = w.r0+j, w.c0+i
			}
			x, y := before[pi*w.C+pj], av.Float64At(k)
			if x != x {
				x = math.Inf(1)
			}
			if y != y {
				y = math.Inf(1)
			}
			want, got = append(want, x), append(got, y)
		}
		sort.Float64s(want)
		sort.Float64s(got)
		for k := range want {
			if want[k] != got[k] {
				w.fail("in-bounds", name+"|element-from-outside-of-the-view", "%s on the view rows [%d,%d) x cols [%d,%d)%s of a %dx%d parent returned the elements (sorted) %v, the view holds %v", name, w.r0, w.r1, w.c0, w.c1, map[bool]string{true: ".T()", false: ""}[tr], w.R, w.C, got, want)
				break
			}
		}
		if r*cc > 0 {
			// writing through the result may or may not reach the parent, but never
			// an element outside the view (checked by w.after)
			core.Try(func() { av.At(t.Choose(r * cc)).SetFloat64(9) })
		}
		c.Count("in-bounds:" + name)
	}
	w.after(name, before, kind >= 2 && kind != 16 && kind != 17)
	c.StateStr(fmt.Sprintf("%s|%s|%d", w.class(), name, w.e))
}

// construct calls the type-specific constructor of a sparse container with
// the given positions (all values 1) and renders the result.
func construct(k, e int, idx []int, n int) string {
	one := func() []float64 {
		v := make([]float64, len(idx))
		for i := range v {
			v[i] = 1
		}
		return v
	}
	cols := make([]int, len(idx)) // matrix: bad row index, column 0
	name := elemTypes[e].name
	conv8, conv16, conv32, conv64, convI, convF32 := []int8{}, []int16{}, []int32{}, []int64{}, []int{}, []float32{}
	for range idx {
		conv8, conv16, conv32, conv64, convI, convF32 = append(conv8, 1), append(conv16, 1), append(conv32, 1), append(conv64, 1), append(convI, 1), append(convF32, 1)
	}
	switch k {
	case 0:
		switch name {
		case "float64":
			return fmt.Sprint(ad.NewSparseFloat64Vector(idx, one(), n))
		case "real64":
			return fmt.Sprint(ad.NewSparseReal64Vector(idx, one(), n))
		case "float32":
			return fmt.Sprint(ad.NewSparseFloat32Vector(idx, convF32, n))
		case "real32":
			return fmt.Sprint(ad.NewSparseReal32Vector(idx, convF32, n))
		case "int":
			return fmt.Sprint(ad.NewSparseIntVector(idx, convI, n))
		case "int64":
			return fmt.Sprint(ad.NewSparseInt64Vector(idx, conv64, n))
		case "int32":
			return fmt.Sprint(ad.NewSparseInt32Vector(idx, conv32, n))
		case "int16":
			return fmt.Sprint(ad.NewSparseInt16Vector(idx, conv16, n))
		case "int8":
			return fmt.Sprint(ad.NewSparseInt8Vector(idx, conv8, n))
		}
	case 1:
		switch name {
		case "float64":
			return fmt.Sprint(ad.NewSparseConstFloat64Vector(idx, one(), n))
		case "float32":
			return fmt.Sprint(ad.NewSparseConstFloat32Vector(idx, convF32, n))
		case "int":
			return fmt.Sprint(ad.NewSparseConstIntVector(idx, convI, n))
		case "int64":
			return fmt.Sprint(ad.NewSparseConstInt64Vector(idx, conv64, n))
		case "int32":
			return fmt.Sprint(ad.NewSparseConstInt32Vector(idx, conv32, n))
		case "int16":
			return fmt.Sprint(ad.NewSparseConstInt16Vector(idx, conv16, n))
		case "int8":
			return fmt.Sprint(ad.NewSparseConstInt8Vector(idx, conv8, n))
		}
		return "n/a"
	default:
		switch name {
		case "float64":
			return fmt.Sprint(ad.NewSparseFloat64Matrix(idx, cols, one(), n, 2))
		case "real64":
			return fmt.Sprint(ad.NewSparseReal64Matrix(idx, cols, one(), n, 2))
		case "float32":
			return fmt.Sprint(ad.NewSparseFloat32Matrix(idx, cols, convF32, n, 2))
		case "real32":
			return fmt.Sprint(ad.NewSparseReal32Matrix(idx, cols, convF32, n, 2))
		case "int":
			return fmt.Sprint(ad.NewSparseIntMatrix(idx, cols, convI, n, 2))
		case "int64":
			return fmt.Sprint(ad.NewSparseInt64Matrix(idx, cols, conv64, n, 2))
		case "int32":
			return fmt.Sprint(ad.NewSparseInt32Matrix(idx, cols, conv32, n, 2))
		case "int16":
			return fmt.Sprint(ad.NewSparseInt16Matrix(idx, cols, conv16, n, 2))
		case "int8":
			return fmt.Sprint(ad.NewSparseInt8Matrix(idx, cols, conv8, n, 2))
		}
	}
	return "n/a"
}
