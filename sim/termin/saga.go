package termin

import (
	"fmt"
	"math"

	ad "github.com/pbenner/autodiff"
	"github.com/pbenner/autodiff/algorithm/saga"
	"verif/sim/core"
)

/* SAGA without an iteration cap ---------------------------------------------------------------
 *
 * saga.Run's default cap is the largest int: a run ends because its stopping
 * rule fires.  The hook is the clock.  The rule "relative step <= epsilon*gamma"
 * holds in particular for an epoch that did not move the iterate at all, so a
 * hook call that reports an exactly zero step means the routine has walked past
 * its own stopping condition -- it would do so for ever.  Problems whose
 * iterate becomes stationary in finitely many epochs are drawn on purpose: a
 * dominating l1 penalty (the solution is exactly 0), data that vanish at the
 * start, and small ordinary problems (which settle within rounding).
 */

type sagaAbort struct{ msg string }

func RunSaga(c *core.Ctx) {
	t := c.Tape
	d := t.Range(1, 3)
	n := d + t.Range(0, 6)
	kind := t.Choose(3) // dominating l1, zero data at the origin, ordinary
	A := make([][]float64, n)
	b := make([]float64, n)
	L := 1.0
	for i := range A {
		A[i] = make([]float64, d)
		if i < d {
			A[i][i] = 1
		} else {
			for j := range A[i] {
				A[i][j] = float64(t.Range(-2, 2))
			}
		}
		b[i] = float64(t.Range(-4, 4)) / 2
		if kind == 1 {
			b[i] = 0
		}
		q := 0.0
		for _, v := range A[i] {
			q += v * v
		}
		L = math.Max(L, q)
	}
	x0 := make([]float64, d)
	if kind != 1 {
		for i := range x0 {
			x0[i] = float64(t.Range(-8, 8)) / 4
		}
	}
	variant := t.Choose(4)
	lambda := 0.0
	if kind == 0 {
		lambda = 1e4 // dominates every gradient
	} else if t.Bool(1, 2) {
		lambda = float64(t.Range(1, 4)) / 4
	}
	gamma := 1 / (float64(t.Range(3, 6)) * L)
	eps := []float64{1e-8, 1e-12, 0}[t.Choose(3)]
	seed := int64(t.Range(0, 1<<20))
	name := []string{"Objective1Dense", "Objective2Dense", "Objective1Sparse", "Objective2Sparse"}[variant]
	c.Logf("saga.%s without iteration cap: %s, d=%d n=%d l1=%g gamma=%.5g epsilon=%g seed=%d x0=%v", name, []string{"dominating l1 penalty", "zero data, start at the origin", "ordinary problem"}[kind], d, n, lambda, gamma, eps, seed, x0)
	dense := make([]ad.DenseFloat64Vector, n)
	sparse := make([]ad.SparseConstFloat64Vector, n)
	for i := range A {
		dense[i] = ad.NewDenseFloat64Vector(append([]float64{}, A[i]...))
		idx, val := []int{}, []float64{}
		for j, v := range A[i] {
			if v != 0 {
				idx, val = append(idx, j), append(val, v)
			}
		}
		sparse[i] = ad.NewSparseConstFloat64Vector(idx, val, d)
	}
	evals := 0
	resid := func(i int, x ad.DenseFloat64Vector) float64 {
		evals++
		r := -b[i]
		for j := 0; j < d; j++ {
			r += A[i][j] * x[j]
		}
		return r
	}
	var f interface{}
	switch variant {
	case 0:
		f = saga.Objective1Dense(func(i int, x ad.DenseFloat64Vector) (float64, float64, ad.DenseFloat64Vector, error) {
			r := resid(i, x)
			return 0.5 * r * r, r, dense[i], nil
		})
	case 1:
		f = saga.Objective2Dense(func(i int, x ad.DenseFloat64Vector) (float64, ad.DenseFloat64Vector, error) {
			r := resid(i, x)
			g := make([]float64, d)
			for j := range g {
				g[j] = r * A[i][j]
			}
			return 0.5 * r * r, ad.NewDenseFloat64Vector(g), nil
		})
	case 2:
		f = saga.Objective1Sparse(func(i int, x ad.DenseFloat64Vector) (float64, float64, ad.SparseConstFloat64Vector, error) {
			r := resid(i, x)
			return 0.5 * r * r, r, sparse[i], nil
		})
	default:
		f = saga.Objective2Sparse(func(i int, x ad.DenseFloat64Vector) (float64, ad.SparseConstFloat64Vector, error) {
			r := resid(i, x)
			idx, val := []int{}, []float64{}
			for j, v := range A[i] {
				if v != 0 {
					idx, val = append(idx, j), append(val, r*v)
				}
			}
			return 0.5 * r * r, ad.NewSparseConstFloat64Vector(idx, val, d), nil
		})
	}
	// no budget can be derived for a run that converges towards 0 (the rule is
	// relative, so it only fires when the iterate underflows); such runs are
	// ended by the hook and not judged
	const epochBudget = 20000
	gaveUp := false
	prev := append([]float64{}, x0...)
	epochs := 0
	hook := saga.Hook{Value: func(x ad.ConstVector, delta, lam ad.ConstScalar, epoch int) bool {
		epochs++
		c.Steps++
		moved := false
		cur := make([]float64, x.Dim())
		for i := range cur {
			cur[i] = x.ConstAt(i).GetFloat64()
			if cur[i] != prev[i] {
				moved = true
			}
		}
		if !moved {
			panic(sagaAbort{fmt.Sprintf("epoch %d left the iterate exactly where it was (%v), which satisfies the stopping rule for every epsilon >= 0, and the run went on", epoch, cur)})
		}
		prev = cur
		if epochs > epochBudget {
			gaveUp = true
			return true
		}
		return false
	}}
	// l1 through the library's own proximal operator; "none" through the
	// Tikhonov operator with a vanishing constant would change the problem, so
	// the unregularised case uses l1 = 0 with an explicit proximal operator
	args := []interface{}{hook, saga.Gamma{Value: gamma}, saga.Epsilon{Value: eps}, saga.Seed{Value: seed}}
	if lambda > 0 {
		args = append(args, saga.L1Regularization{Value: lambda})
	} else {
		args = append(args, saga.ProximalOperator{Value: &saga.ProximalOperatorL1{Lambda: 0}})
	}
	if t.Bool(1, 5) {
		// invalid option value: a negative regularisation constant must be
		// reported, whichever of the three it is
		which := t.Choose(3)
		val := -float64(t.Range(1, 8)) / 4
		bad := []interface{}{saga.L1Regularization{Value: val}, saga.L2Regularization{Value: val}, saga.TikhonovRegularization{Value: val}}[which]
		optName := []string{"L1Regularization", "L2Regularization", "TikhonovRegularization"}[which]
		c.Logf("invalid option: %s{%g}", optName, val)
		var err error
		pv, _ := core.Try(func() {
			_, _, err = saga.Run(f, n, ad.NewDenseFloat64Vector(append([]float64{}, x0...)), saga.Gamma{Value: gamma}, saga.Epsilon{Value: eps}, saga.Seed{Value: seed}, saga.MaxIterations{Value: 3}, bad)
		})
		c.Nontriv = true
		c.Count("misuse:invalid-option-value")
		c.StateStr(fmt.Sprint("saga-invalid-option", variant, which))
		c.Sample = map[string]interface{}{"algorithm": "saga." + name, "invalid_option": fmt.Sprintf("%s{%g}", optName, val)}
		if pv == nil && err == nil {
			c.Fail("loud-failure", "saga|invalid-option-value|silently-accepted", "saga.Run with %s{%g} returned without error", optName, val)
		}
		return
	}
	var err error
	pv, site := core.Try(func() { _, _, err = saga.Run(f, n, ad.NewDenseFloat64Vector(append([]float64{}, x0...)), args...) })
	c.Nontriv = true
	c.StateStr(fmt.Sprint("saga", variant, kind, lambda > 0, pv != nil, err != nil))
	c.Sample = map[string]interface{}{"algorithm": "saga." + name, "problem": kind, "epochs": epochs, "evaluations": evals}
	if a, ok := pv.(sagaAbort); ok {
		sig := "continues-after-a-still-epoch"
		c.Fail("step-clock", "saga."+name+"|"+sig, "saga.Run (%s, no iteration cap) did not finish: %s; %d epochs, %d evaluations", name, a.msg, epochs, evals)
	}
	if pv != nil {
		c.Logf("panic in %s: %v", site, pv)
		c.Count("outcome:panic")
		return
	}
	if err != nil {
		c.Count("outcome:error")
		return
	}
	if gaveUp {
		c.Count("not-judged:still-moving-after-20000-epochs")
		return
	}
	c.Count("outcome:returned")
}
