package termin

import (
	"errors"
	"fmt"
	"math"

	ad "github.com/pbenner/autodiff"
	"github.com/pbenner/autodiff/algorithm/adam"
	"github.com/pbenner/autodiff/algorithm/bfgs"
	"github.com/pbenner/autodiff/algorithm/cholesky"
	"github.com/pbenner/autodiff/algorithm/determinant"
	"github.com/pbenner/autodiff/algorithm/newton"
	"github.com/pbenner/autodiff/algorithm/rprop"
	"verif/sim/core"
	"verif/sim/ticks"
)

/* optimizers without an iteration cap --------------------------------------------------------
 *
 * "The optimisation loops cannot spin forever on ... objectives that return
 * NaN."  With the caller's cap every loop ends; here the routines run with
 * their default cap (the largest int) and the environment's evaluation counter
 * is the clock.  The objective is a pure function of x: a separable convex
 * quadratic where it is defined, and NaN / NaN gradient / an error outside a
 * ball of radius 0 around the starting point, i.e. everywhere else: no step can
 * be accepted.  A routine may return a point, an error or panic; it may not go
 * on evaluating.  Budget: a back-tracking routine needs ~1100 halvings per
 * coordinate to find out that it cannot move; 400000 evaluations is two orders
 * of magnitude above the slowest legitimate run (evaluation counters in the
 * evidence).  Gradient descent is not part of this scenario: its API has no cap at
 * all and a fixed step that is too long legitimately oscillates for ever.
 */

const nocapBudget = 400000

type nocapAbort struct{}

func RunNoCap(c *core.Ctx) {
	t := c.Tape
	n := t.Range(1, 3)
	algs := []string{"bfgs", "rprop", "newton.RunCrit", "newton.RunMin", "adam", "rprop", "bfgs"}
	alg := algs[t.Choose(len(algs))]
	q := make([]float64, n)
	m := make([]float64, n)
	x0v := make([]float64, n)
	for i := range q {
		q[i] = float64(t.Range(1, 8)) / 2
		m[i] = float64(t.Range(-4, 4)) / 2
		x0v[i] = float64(t.Range(-6, 6)) / 2
	}
	kind := 1 + t.Choose(3) // NaN value, error, NaN gradient
	// radius 0: the objective is defined at the starting point only, so no
	// step can ever be accepted and the routine has to give up.  With a larger
	// ball a routine whose minimiser lies outside legitimately wanders along
	// the boundary until the caller's cap (there is nothing it could converge
	// to), which is not a defect of the loop.
	radius := 0.0
	evals, hostile := 0, 0
	f := func(x ad.ConstVector) (ad.MagicScalar, error) {
		evals++
		c.Steps++
		if evals > nocapBudget {
			panic(nocapAbort{})
		}
		r := ad.NewReal64(0)
		tmp := ad.NewReal64(0)
		d := 0.0
		for i := 0; i < n; i++ {
			tmp.Sub(x.ConstAt(i), ad.ConstFloat64(m[i]))
			tmp.Mul(tmp, tmp)
			tmp.Mul(tmp, ad.ConstFloat64(0.5*q[i]))
			r.Add(r, tmp)
			e := x.ConstAt(i).GetFloat64() - x0v[i]
			d += e * e
		}
		if math.Sqrt(d) > radius || math.IsNaN(d) {
			hostile++
			switch kind {
			case 2:
				return nil, errors.New("objective undefined here")
			case 3:
				for i := 0; i < r.GetN(); i++ {
					r.SetDerivative(i, math.NaN())
				}
			default:
				r.Mul(r, ad.ConstFloat64(math.NaN()))
			}
		}
		return r, nil
	}
	kindName := []string{"", "NaN", "an error", "a NaN gradient"}[kind]
	c.Logf("%s without iteration cap: n=%d q=%v minimiser=%v x0=%v; the objective is %s outside the ball of radius %g around x0", alg, n, q, m, x0v, kindName, radius)
	x0 := ad.NewDenseFloat64Vector(append([]float64(nil), x0v...))
	var err error
	pv, site := core.Try(func() {
		switch alg {
		case "bfgs":
			_, err = bfgs.Run(f, x0, bfgs.Epsilon{Value: 1e-6})
		case "rprop":
			_, err = rprop.Run(f, x0, []float64{0.1, 1, 1e-3}[t.Choose(3)], []float64{1.2, 0.5}, rprop.Epsilon{Value: 1e-6})
		case "newton.RunCrit":
			_, err = newton.RunCrit(f, x0, newton.Epsilon{Value: 1e-8})
		case "newton.RunMin":
			_, err = newton.RunMin(f, x0, newton.Epsilon{Value: 1e-8})
		case "adam":
			_, err = adam.Run(f, x0, adam.Epsilon{Value: 1e-4})
		}
	})
	c.Nontriv = hostile > 0
	c.StateStr(fmt.Sprintf("nocap|%s|%d|%g|%v|%v", alg, kind, radius, pv != nil, err != nil))
	c.Sample = map[string]interface{}{"algorithm": alg, "n": n, "objective_outside_ball": kindName, "radius": radius, "evaluations": evals, "hostile_evaluations": hostile}
	if _, ok := pv.(nocapAbort); ok {
		c.Fail("step-clock", alg+"|no-cap|still-evaluating", "%s (default iteration cap) was still evaluating the objective after %d evaluations, %d of them where the objective is %s; a routine that cannot make progress has to return", alg, nocapBudget, hostile, kindName)
	}
	switch {
	case pv != nil:
		c.Logf("panic in %s: %v", site, pv)
		c.Count("outcome:panic")
	case err != nil:
		c.Logf("error: %v", err)
		c.Count("outcome:error")
	default:
		c.Count("outcome:returned")
	}
	// calibration of the budget
	b := 0
	for e := evals; e > 0; e /= 10 {
		b++
	}
	c.Count(fmt.Sprintf("evaluations<1e%d", b))
}

/* open finding C20-F1: in-situ work memory of another shape ---------------------------------- */

// ProbeInSituShape: the documented way to avoid allocations is to hand the
// algorithms their work memory (*InSitu).  Its shape is not validated: memory
// left from a call on a 3x3 matrix makes the call on a 2x2 matrix return 3x3
// factors without an error.
func ProbeInSituShape(c *core.Ctx) {
	is := &cholesky.InSitu{}
	a := ad.NewDenseFloat64Matrix([]float64{4, 1, 0, 1, 3, 1, 0, 1, 2}, 3, 3)
	if _, _, err := cholesky.Run(a, is); err != nil {
		c.Logf("first call failed: %v", err)
		return
	}
	b := ad.NewDenseFloat64Matrix([]float64{2, 0, 0, 2}, 2, 2)
	var l ad.Matrix
	var err error
	pv, _ := core.Try(func() { l, _, err = cholesky.Run(b, is) })
	if pv != nil || err != nil {
		c.Logf("second call failed loudly: %v %v", pv, err)
		return
	}
	r, k := l.Dims()
	c.Logf("cholesky.Run(2x2, InSitu left from a 3x3 call) returned a %dx%d factor", r, k)
	if r != 2 || k != 2 {
		c.Fail("loud-failure", "cholesky|InSitu-of-another-shape|result-of-the-wrong-shape", "cholesky.Run on a 2x2 matrix with the *InSitu left from a call on a 3x3 matrix returned a %dx%d factor without error", r, k)
	}
}

/* open finding C20-F2: cofactor expansion -------------------------------------------------- */

// ProbeDeterminantCost: determinant.Run without PositiveDefinite expands along
// the first row recursively (determinantNaive): n! / 2 minors.  Polynomial
// budget for the probe: 10 n^4 recursive calls.
func ProbeDeterminantCost(c *core.Ctx) {
	n := 9
	a := ad.NullDenseFloat64Matrix(n, n)
	for i := 0; i < n; i++ {
		for j := 0; j < n; j++ {
			a.At(i, j).SetFloat64(float64((i*j)%3) + 1)
		}
		a.At(i, i).SetFloat64(float64(n))
	}
	budget := 10 * n * n * n * n
	over, counts := ticks.Guard(map[string]int{"determinant.minor": budget}, 100000000, func() {
		core.Try(func() { determinant.Run(a) })
	})
	c.Logf("determinant.Run on a %dx%d matrix: %v recursive calls (budget %d)", n, n, counts, budget)
	if over != nil {
		c.Fail("step-clock", "determinant|determinant.minor|budget-exceeded", "determinant.Run (default options) on a %dx%d matrix was still expanding minors after %d recursive calls: cofactor expansion needs about n!/2 = %d of them", n, n, over.Ticks, 181440)
	}
}
