package termin

import (
	"errors"
	"fmt"
	"math"

	ad "github.com/pbenner/autodiff"
	"github.com/pbenner/autodiff/algorithm/adam"
	"github.com/pbenner/autodiff/algorithm/bfgs"
	"github.com/pbenner/autodiff/algorithm/gradientDescent"
	"github.com/pbenner/autodiff/algorithm/lineSearch"
	"github.com/pbenner/autodiff/algorithm/newton"
	"github.com/pbenner/autodiff/algorithm/rprop"
	"verif/sim/core"
	"verif/sim/ticks"
)

/* optimizers in a hostile but deterministic environment -------------------------------
 *
 * The objective is a pure function of x (so "terminates" is meaningful): a
 * convex quadratic inside a region, and NaN value / NaN gradient / an error
 * outside of it; constraint predicates are pure functions of x, too (false
 * everywhere, false at the origin of a line search, true only inside a ball).
 * Every call carries an explicit iteration cap K, so the only legal ways to
 * take longer than the budget are the inner back-tracking loops.
 */

// halvings needed to take 1.0 below the smallest subnormal: 1075.  A
// back-tracking loop that halves a step has no reason to run longer.
const halvingBudget = 1100

// a loop that shrinks a step by the factor 0.9 needs ln(1e3 * 2^1075)/ln(1/0.9)
// = 7140 rounds to take a step of size 1e3 below the smallest subnormal
const shrinkBudget = 8000

type region struct {
	kind   int // 0: everywhere fine, 1: NaN outside ball, 2: error outside ball, 3: NaN gradient outside ball, 4: NaN inside small ball around the minimum
	center []float64
	radius float64
}

func (r region) inside(x ad.ConstVector) bool {
	d := 0.0
	for i := 0; i < x.Dim(); i++ {
		e := x.ConstAt(i).GetFloat64() - r.center[i]
		d += e * e
	}
	return math.Sqrt(d) <= r.radius
}

func RunOptim(c *core.Ctx) {
	t := c.Tape
	n := t.Range(1, 3)
	algs := []string{"rprop", "rprop", "bfgs", "newton.RunRoot", "newton.RunCrit", "newton.RunMin", "gradientDescent", "adam", "lineSearch"}
	alg := algs[t.Choose(len(algs))]
	// quadratic 1/2 sum q_i (x_i - m_i)^2
	q := make([]float64, n)
	m := make([]float64, n)
	x0v := make([]float64, n)
	for i := range q {
		q[i] = float64(t.Range(1, 8)) / 2
		m[i] = float64(t.Range(-4, 4)) / 2
		x0v[i] = float64(t.Range(-6, 6)) / 2
	}
	reg := region{kind: t.Choose(5), center: append([]float64(nil), x0v...), radius: float64(t.Range(0, 6)) / 4}
	if reg.kind == 4 {
		reg.center = append([]float64(nil), m...)
	}
	cons := t.Choose(5) // 0 none, 1 false everywhere, 2 false at the starting point only, 3 true inside ball around x0, 4 false on a half space
	K := t.Range(1, 40)
	evals := 0
	bad := func(x ad.ConstVector) bool {
		switch reg.kind {
		case 1, 2, 3:
			return !reg.inside(x)
		case 4:
			return reg.inside(x)
		}
		return false
	}
	f := func(x ad.ConstVector) (ad.MagicScalar, error) {
		evals++
		r := ad.NewReal64(0)
		tmp := ad.NewReal64(0)
		for i := 0; i < n; i++ {
			tmp.Sub(x.ConstAt(i), ad.ConstFloat64(m[i]))
			tmp.Mul(tmp, tmp)
			tmp.Mul(tmp, ad.ConstFloat64(0.5*q[i]))
			r.Add(r, tmp)
		}
		if bad(x) {
			switch reg.kind {
			case 2:
				return nil, errors.New("objective undefined here")
			case 3:
				for i := 0; i < r.GetN(); i++ {
					r.SetDerivative(i, math.NaN())
				}
			default:
				r.Mul(r, ad.ConstFloat64(math.NaN()))
			}
		}
		return r, nil
	}
	g := func(x ad.ConstVector) (ad.MagicVector, error) {
		evals++
		v := ad.NullDenseReal64Vector(n)
		for i := 0; i < n; i++ {
			d := ad.NewReal64(0)
			d.Sub(x.ConstAt(i), ad.ConstFloat64(m[i]))
			d.Mul(d, ad.ConstFloat64(q[i]))
			v.At(i).Set(d)
		}
		if bad(x) {
			if reg.kind == 2 {
				return nil, errors.New("objective undefined here")
			}
			for i := 0; i < n; i++ {
				v.At(i).Mul(v.At(i), ad.ConstFloat64(math.NaN()))
			}
		}
		return v, nil
	}
	invalidOption, optionText := false, ""
	ncons := 0
	pred := func(x ad.Vector) bool {
		ncons++
		switch cons {
		case 1:
			return false
		case 2:
			for i := 0; i < n; i++ {
				if x.ConstAt(i).GetFloat64() != x0v[i] {
					return true
				}
			}
			return false
		case 3:
			d := 0.0
			for i := 0; i < n; i++ {
				e := x.ConstAt(i).GetFloat64() - x0v[i]
				d += e * e
			}
			return d <= 0.25
		case 4:
			return x.ConstAt(0).GetFloat64() <= x0v[0]
		}
		return true
	}
	x0 := ad.NewDenseFloat64Vector(append([]float64(nil), x0v...))
	c.Logf("%s: n=%d q=%v minimiser=%v x0=%v objective-region kind=%d radius=%g constraint kind=%d cap K=%d", alg, n, q, m, x0v, reg.kind, reg.radius, cons, K)
	var err error
	call := func() {
		switch alg {
		case "rprop":
			args := []interface{}{rprop.Epsilon{Value: 1e-6}, rprop.MaxIterations{Value: K}}
			if cons != 0 {
				args = append(args, rprop.Constraints{Value: pred})
			}
			_, err = rprop.Run(f, x0, []float64{0.1, 1, 1e-3}[t.Choose(3)], []float64{1.2, 0.5}, args...)
		case "bfgs":
			args := []interface{}{bfgs.Epsilon{Value: 1e-6}, bfgs.MaxIterations{Value: K}}
			if cons != 0 {
				args = append(args, bfgs.Constraints{Value: pred})
			}
			_, err = bfgs.Run(f, x0, args...)
		case "newton.RunRoot":
			args := []interface{}{newton.Epsilon{Value: 1e-8}, newton.MaxIterations{Value: K}}
			if cons != 0 {
				args = append(args, newton.Constraints{Value: pred})
			}
			_, err = newton.RunRoot(g, x0, args...)
		case "newton.RunCrit":
			args := []interface{}{newton.Epsilon{Value: 1e-8}, newton.MaxIterations{Value: K}}
			if cons != 0 {
				args = append(args, newton.Constraints{Value: pred})
			}
			_, err = newton.RunCrit(f, x0, args...)
		case "newton.RunMin":
			args := []interface{}{newton.Epsilon{Value: 1e-8}, newton.MaxIterations{Value: K}}
			if cons != 0 {
				args = append(args, newton.Constraints{Value: pred})
			}
			if t.Bool(1, 2) {
				// the three documented values and values that are not
				hm := []string{"LDL", "Eigenvalue", "None", "LDL", "Eigenvalue", "ldl", "eigenvalue", "Eigenvalues", "Cholesky", ""}[t.Choose(10)]
				invalidOption = hm != "LDL" && hm != "Eigenvalue" && hm != "None"
				optionText = fmt.Sprintf("HessianModification{%q}", hm)
				c.Logf("newton %s", optionText)
				args = append(args, newton.HessianModification{Value: hm})
			}
			_, err = newton.RunMin(f, x0, args...)
		case "gradientDescent":
			// no iteration cap in the API: the hook is the caller's cap
			it := 0
			hook := func(gradient []float64, x ad.ConstVector, y ad.ConstScalar) bool { it++; return it > K }
			_, err = gradientDescent.Run(f, x0, 0.05, gradientDescent.Epsilon{Value: 1e-4}, gradientDescent.Hook{Value: hook})
		case "adam":
			args := []interface{}{adam.Epsilon{Value: 1e-4}, adam.MaxIterations{Value: K}}
			if cons != 0 {
				args = append(args, adam.Constraints{Value: pred})
			}
			_, err = adam.Run(f, x0, args...)
		case "lineSearch":
			// phi(alpha) = f(x0 - alpha * grad f(x0)), constraint on alpha
			gr := make([]float64, n)
			for i := range gr {
				gr[i] = q[i] * (x0v[i] - m[i])
			}
			phi := func(alpha ad.ConstScalar) (ad.MagicScalar, error) {
				x := ad.NullDenseReal64Vector(n)
				for i := 0; i < n; i++ {
					s := ad.NewReal64(0)
					s.Mul(alpha, ad.ConstFloat64(-gr[i]))
					s.Add(s, ad.ConstFloat64(x0v[i]))
					x.At(i).Set(s)
				}
				return f(x)
			}
			// the first trial step is an option value: "all optional-argument
			// values" includes the hostile ones
			alpha1 := []float64{1, 1, 1, 0.5, 4, 1e308, math.Inf(1), math.NaN(), -1, 0}[t.Choose(10)]
			c.Logf("lineSearch Alpha1 = %v", alpha1)
			args := []interface{}{lineSearch.Parameters{Alpha1: alpha1, MaxEval: K}}
			if cons != 0 {
				args = append(args, lineSearch.Constraints{Value: func(a ad.ConstScalar) bool {
					ncons++
					switch cons {
					case 1:
						return false
					case 2:
						return a.GetFloat64() != 0
					case 3:
						return a.GetFloat64() <= 0.25
					default:
						return a.GetFloat64() < 1e-3
					}
				}})
			}
			_, err = lineSearch.Run(phi, ad.Float64Type, args...)
		}
	}
	budgets := map[string]int{
		"rprop.iter": K + 1, "rprop.backtrack": (K + 1) * halvingBudget,
		"bfgs.iter": K + 1, "adam.iter": K + 1,
		"newton.root.iter": K + 1, "newton.min.iter": K + 1,
		"newton.root.constraints": (K + 1) * shrinkBudget, "newton.min.constraints": (K + 1) * shrinkBudget,
		"gradientDescent.iter": K + 2,
		// bfgs calls the line search once per iteration with MaxEval = 100, newton with MaxEval = 20
		"lineSearch.bracket": (K + 1) * 101, "lineSearch.zoom": (K + 1) * 101, "lineSearch.constraints": (K + 1) * 101 * halvingBudget,
		"qr.francis": 30*n*n + n + 10, "qr.block2x2": 30*n*n + n + 10, "qr.symmetric": 30*n*n + n + 10,
	}
	if alg == "lineSearch" {
		budgets["lineSearch.bracket"], budgets["lineSearch.zoom"], budgets["lineSearch.constraints"] = K+1, K+1, (K+1)*halvingBudget
	}
	var pv interface{}
	var site string
	over, counts := ticks.Guard(budgets, 100000, func() { pv, site = core.Try(call) })
	total := 0
	for _, v := range counts {
		total += v
	}
	c.Steps += total + evals + ncons
	if over != nil {
		c.Fail("step-clock", alg+"|"+over.Site+"|budget-exceeded", "%s did not finish: loop %s was still running after %d iterations (budget %d with iteration cap K=%d); objective region kind %d, constraint kind %d, %d objective evaluations, %d constraint evaluations so far", alg, over.Site, over.Ticks, budgets[over.Site], K, reg.kind, cons, evals, ncons)
	}
	outcome := "returned"
	switch {
	case pv != nil:
		outcome = "panic"
		c.Logf("panicked in %s: %v", site, pv)
	case err != nil:
		outcome = "error"
		c.Logf("error: %v", err)
	}
	c.Count("outcome:" + outcome)
	if invalidOption {
		c.Count("misuse:invalid-option-value")
		// the option is consulted when the first direction is computed, i.e.
		// after the first successful evaluation
		if outcome == "returned" && evals >= 2 {
			c.Fail("loud-failure", alg+"|invalid-option-value|silently-accepted", "%s with the invalid option value %s returned without error after %d evaluations", alg, optionText, evals)
		}
	}
	if reg.kind != 0 {
		c.Count("fault:objective-undefined-region")
	}
	if cons != 0 {
		c.Count("fault:hostile-constraint-predicate")
	}
	c.Nontriv = reg.kind != 0 || cons != 0
	c.StateStr(fmt.Sprintf("%s|%d|%d|%s|%d", alg, reg.kind, cons, outcome, n))
	c.Sample = map[string]interface{}{"algorithm": alg, "n": n, "objective_region": reg.kind, "constraint": cons, "cap": K, "outcome": outcome, "ticks": counts, "evaluations": evals}
}
