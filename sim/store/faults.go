package store

import (
	"bytes"
	"compress/gzip"
	"fmt"
	"regexp"
)

// fault is one way the medium can deliver different bytes than were written.
type fault struct {
	kind string
	desc string
	data []byte
	// dir / missing: path-level faults for the table codecs
	pathFault string
}

var numberTok = regexp.MustCompile(`-?[0-9][0-9.eE+\-]*|NaN|[+-]?Inf`)

var evilNumbers = []string{"", "-", "NaN", "+Inf", "1e999", "-1", "0", "7", "1000003", "0x10", "1.5", "1e3", "9223372036854775808", "-9223372036854775809", "1 2", "\"1\"", "null", "[]", "1e-400"}

// enumerate lists every fault of the family for the artifact bytes.  The
// positions are enumerated completely up to cap positions; beyond that an
// evenly spaced subset is taken (and reported as such).
func enumerate(family string, data []byte, capPos int) (fs []fault, exhaustive bool) {
	exhaustive = true
	positions := func(n int) []int {
		if n <= capPos {
			r := make([]int, n)
			for i := range r {
				r[i] = i
			}
			return r
		}
		exhaustive = false
		r := make([]int, 0, capPos)
		for i := 0; i < capPos; i++ {
			r = append(r, i*n/capPos)
		}
		// bufio flush boundaries always included
		for b := 4096; b < n; b += 4096 {
			r = append(r, b-1, b, b+1)
		}
		return r
	}
	cp := func(b []byte) []byte { return append([]byte(nil), b...) }
	switch family {
	case "torn":
		for _, k := range positions(len(data)) {
			fs = append(fs, fault{kind: "torn", desc: fmt.Sprintf("prefix of %d/%d bytes", k, len(data)), data: cp(data[:k])})
		}
	case "bitflip":
		for _, k := range positions(len(data)) {
			for _, bit := range []uint{0, 2, 4, 6} {
				d := cp(data)
				d[k] ^= 1 << bit
				fs = append(fs, fault{kind: "bitflip", desc: fmt.Sprintf("bit %d of byte %d flipped (%q -> %q)", bit, k, data[k], d[k]), data: d})
			}
		}
	case "bytedrop":
		for _, k := range positions(len(data)) {
			d := append(cp(data[:k]), data[k+1:]...)
			fs = append(fs, fault{kind: "bytedrop", desc: fmt.Sprintf("byte %d (%q) lost", k, data[k]), data: d})
		}
	case "bytedup":
		for _, k := range positions(len(data)) {
			d := append(cp(data[:k+1]), data[k:]...)
			fs = append(fs, fault{kind: "bytedup", desc: fmt.Sprintf("byte %d (%q) duplicated", k, data[k]), data: d})
		}
	case "zerotail":
		for _, k := range positions(len(data)) {
			d := cp(data)
			for i := k; i < len(d); i++ {
				d[i] = 0
			}
			fs = append(fs, fault{kind: "zerotail", desc: fmt.Sprintf("bytes %d.. zero-filled", k), data: d})
		}
	case "blockdup":
		for _, k := range positions(len(data)) {
			for _, l := range []int{1, 3, 8} {
				if k+l <= len(data) {
					d := append(cp(data[:k+l]), data[k:]...)
					fs = append(fs, fault{kind: "blockdup", desc: fmt.Sprintf("block [%d,%d) written twice", k, k+l), data: d})
				}
			}
		}
	case "splice":
		// a torn new file spliced onto the tail of an older, longer one
		old := bytes.Repeat([]byte("7 "), len(data)/2+2)
		for _, k := range positions(len(data)) {
			d := append(cp(data[:k]), old[min(k, len(old)):]...)
			fs = append(fs, fault{kind: "splice", desc: fmt.Sprintf("first %d bytes new, rest from an older file", k), data: d})
		}
	case "token":
		toks := numberTok.FindAllIndex(data, -1)
		if len(toks) > capPos/4 {
			exhaustive = false
			toks = toks[:capPos/4]
		}
		for ti, loc := range toks {
			for _, evil := range evilNumbers {
				d := append(cp(data[:loc[0]]), []byte(evil)...)
				d = append(d, data[loc[1]:]...)
				fs = append(fs, fault{kind: "token", desc: fmt.Sprintf("number %d (%q) replaced by %q", ti, data[loc[0]:loc[1]], evil), data: d})
			}
		}
	case "line":
		lines := bytes.SplitAfter(data, []byte("\n"))
		for i := range lines {
			drop := bytes.Join(append(append([][]byte{}, lines[:i]...), lines[i+1:]...), nil)
			fs = append(fs, fault{kind: "line", desc: fmt.Sprintf("line %d lost", i), data: drop})
			dup := bytes.Join(append(append(append([][]byte{}, lines[:i+1]...), lines[i]), lines[i+1:]...), nil)
			fs = append(fs, fault{kind: "line", desc: fmt.Sprintf("line %d duplicated", i), data: dup})
			if i+1 < len(lines) {
				sw := append([][]byte{}, lines...)
				sw[i], sw[i+1] = sw[i+1], sw[i]
				fs = append(fs, fault{kind: "line", desc: fmt.Sprintf("lines %d and %d swapped", i, i+1), data: bytes.Join(sw, nil)})
			}
		}
	case "gzip":
		var zb bytes.Buffer
		zw := gzip.NewWriter(&zb)
		zw.Write(data)
		zw.Close()
		z := zb.Bytes()
		fs = append(fs, fault{kind: "gzip-valid", desc: "the file was gzip-compressed (valid container)", data: cp(z)})
		for _, k := range positions(len(z)) {
			fs = append(fs, fault{kind: "gzip-truncated", desc: fmt.Sprintf("gzip container truncated to %d/%d bytes", k, len(z)), data: cp(z[:k])})
		}
		for _, k := range []int{len(z) - 1, len(z) - 4, len(z) - 5, len(z) - 8, 3, 9} {
			if k >= 0 && k < len(z) {
				d := cp(z)
				d[k] ^= 0x10
				fs = append(fs, fault{kind: "gzip-corrupt", desc: fmt.Sprintf("gzip byte %d of %d corrupted (trailer CRC/size or header)", k, len(z)), data: d})
			}
		}
		fs = append(fs, fault{kind: "gzip-magic", desc: "gzip magic bytes in front of the plain file", data: append([]byte{31, 139}, data...)})
		fs = append(fs, fault{kind: "gzip-magic", desc: "file consisting of the gzip magic only", data: []byte{31, 139}})
		fs = append(fs, fault{kind: "gzip-magic", desc: "file of one byte (first magic byte)", data: []byte{31}})
	case "path":
		fs = append(fs, fault{kind: "missing-file", desc: "the file does not exist", pathFault: "missing"})
		fs = append(fs, fault{kind: "directory", desc: "the path is a directory", pathFault: "dir"})
		fs = append(fs, fault{kind: "empty-file", desc: "the file was lost (zero length)", data: []byte{}})
	}
	return
}

func min(a, b int) int {
	if a < b {
		return a
	}
	return b
}
