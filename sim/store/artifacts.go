// Package store is engine D: the storage simulator for C18.  Writers and
// readers are the library's real code; the medium between them (a byte
// buffer, a simulated stream, a file in a scratch directory owned by the
// simulator) is simulated and can tear, flip, drop, duplicate, re-compress or
// fail at any byte.
package store

import (
	"encoding/json"
	"fmt"
	"math"
	"os"
	"path/filepath"
	"reflect"
	"strings"

	ad "github.com/pbenner/autodiff"
	"verif/sim/core"
)

type elemType struct {
	name string
	t    ad.ScalarType
	kind int // 0 int, 1 float32, 2 float64, 3 real32, 4 real64
	bits int
}

var elemTypes = []elemType{
	{"float64", ad.Float64Type, 2, 64},
	{"real64", ad.Real64Type, 4, 64},
	{"float32", ad.Float32Type, 1, 32},
	{"real32", ad.Real32Type, 3, 32},
	{"int", ad.IntType, 0, 64},
	{"int64", ad.Int64Type, 0, 64},
	{"int32", ad.Int32Type, 0, 32},
	{"int16", ad.Int16Type, 0, 16},
	{"int8", ad.Int8Type, 0, 8},
}

func (e elemType) isReal() bool { return e.kind >= 3 }

func pickType(t *core.Tape) elemType {
	return elemTypes[t.Pick([]int{4, 4, 2, 2, 1, 2, 1, 1, 1})]
}

// value draws an element value of the type: small integers mostly, and the
// special finite values the property names.
func (e elemType) value(t *core.Tape) float64 {
	switch t.Pick([]int{3, 8, 3}) {
	case 0:
		return 0
	case 1:
		v := float64(t.Range(1, 9))
		if t.Bool(1, 2) {
			v = -v
		}
		return v
	}
	switch e.kind {
	case 0:
		lim := math.Ldexp(1, e.bits-1)
		specials := []float64{lim - 1, -lim, lim / 2, -lim/2 - 1, 100, -100}
		if e.bits == 64 {
			// the bounds of int64 are not representable as float64; the
			// largest magnitude that is exact in both directions is 2^53
			specials = []float64{math.Ldexp(1, 53), -math.Ldexp(1, 53), math.Ldexp(1, 53) - 1, 1 << 40, -(1 << 40), 12345678901}
		}
		return specials[t.Choose(len(specials))]
	case 1, 3:
		specials := []float64{float64(math.MaxFloat32), -float64(math.MaxFloat32), float64(math.SmallestNonzeroFloat32), float64(float32(1.0 / 3)), float64(float32(1e-30)), float64(float32(-2.5e20)), math.Copysign(0, -1), 0.5, 16777216, float64(float32(0.1))}
		return specials[t.Choose(len(specials))]
	default:
		specials := []float64{math.MaxFloat64, -math.MaxFloat64, math.SmallestNonzeroFloat64, 4.9406564584124654e-320, 2.2250738585072014e-308, 1.0 / 3, 1e-300, -2.5e300, math.Copysign(0, -1), 0.1, 9007199254740993, 1e22, 123456.789e-5}
		return specials[t.Choose(len(specials))]
	}
}

func values(t *core.Tape, e elemType, n int) []float64 {
	v := make([]float64, n)
	for i := range v {
		v[i] = e.value(t)
	}
	return v
}

/* observation ------------------------------------------------------------------ */

type cell struct {
	bits uint64 // value bits (sign of zero included)
	d    []float64
	h    []float64
}

func readCell(s ad.ConstScalar, withDerivs bool) cell {
	c := cell{bits: math.Float64bits(s.GetFloat64())}
	if withDerivs && s.GetOrder() >= 1 {
		for i := 0; i < s.GetN(); i++ {
			c.d = append(c.d, s.GetDerivative(i))
		}
		if s.GetOrder() >= 2 {
			for i := 0; i < s.GetN(); i++ {
				for j := 0; j < s.GetN(); j++ {
					c.h = append(c.h, s.GetHessian(i, j))
				}
			}
		}
	}
	return c
}

func allZero(v []float64) bool {
	for _, x := range v {
		if x != 0 {
			return false
		}
	}
	return true
}

func sameFloats(a, b []float64) bool {
	if allZero(a) && allZero(b) {
		return true // a missing derivative array equals an all-zero one
	}
	if len(a) != len(b) {
		return false
	}
	for i := range a {
		if math.Float64bits(a[i]) != math.Float64bits(b[i]) && !(a[i] == 0 && b[i] == 0) {
			return false
		}
	}
	return true
}

func (a cell) diff(b cell, signedZero bool) string {
	if a.bits != b.bits {
		x, y := math.Float64frombits(a.bits), math.Float64frombits(b.bits)
		if !(x == 0 && y == 0 && !signedZero) {
			return fmt.Sprintf("value %v (bits %016x) became %v (bits %016x)", x, a.bits, y, b.bits)
		}
	}
	if !sameFloats(a.d, b.d) {
		return fmt.Sprintf("derivative %v became %v", a.d, b.d)
	}
	if !sameFloats(a.h, b.h) {
		return fmt.Sprintf("hessian %v became %v", a.h, b.h)
	}
	return ""
}

// snapshot is the observable state of a scalar, vector or matrix.
type snapshot struct {
	rows, cols int // cols == -1: vector, rows == cols == -1: scalar
	cells      []cell
	nonzero    []int // positions an iterator visits (containers)
}

func observe(x interface{}, withDerivs bool) (s snapshot) {
	switch v := x.(type) {
	case ad.ConstMatrix:
		s.rows, s.cols = v.Dims()
		for i := 0; i < s.rows; i++ {
			for j := 0; j < s.cols; j++ {
				s.cells = append(s.cells, readCell(v.ConstAt(i, j), withDerivs))
			}
		}
		n := 0
		for it := v.ConstIterator(); it.Ok(); it.Next() {
			i, j := it.Index()
			s.nonzero = append(s.nonzero, i*s.cols+j)
			if n++; n > len(s.cells)+2 {
				break
			}
		}
	case ad.ConstVector:
		s.rows, s.cols = v.Dim(), -1
		for i := 0; i < s.rows; i++ {
			s.cells = append(s.cells, readCell(v.ConstAt(i), withDerivs))
		}
		n := 0
		for it := v.ConstIterator(); it.Ok(); it.Next() {
			s.nonzero = append(s.nonzero, it.Index())
			if n++; n > len(s.cells)+2 {
				break
			}
		}
	case ad.ConstScalar:
		s.rows, s.cols = -1, -1
		s.cells = []cell{readCell(v, withDerivs)}
	default:
		panic(fmt.Sprintf("observe: unsupported %T", x))
	}
	return
}

func (a snapshot) diff(b snapshot, signedZero, sparse bool) string {
	if a.rows != b.rows || a.cols != b.cols {
		return fmt.Sprintf("shape %dx%d became %dx%d", a.rows, a.cols, b.rows, b.cols)
	}
	for i := range a.cells {
		if d := a.cells[i].diff(b.cells[i], signedZero); d != "" {
			return fmt.Sprintf("element %d: %s", i, d)
		}
	}
	if sparse {
		// positions holding a non-zero value (what the formats of the sparse
		// types carry), and: iteration over the decoded object visits exactly
		// those
		nz := func(s snapshot) []int {
			r := []int{}
			for i, c := range s.cells {
				if math.Float64frombits(c.bits) != 0 {
					r = append(r, i)
				}
			}
			return r
		}
		if fmt.Sprint(nz(a)) != fmt.Sprint(nz(b)) {
			return fmt.Sprintf("non-zero positions %v became %v", nz(a), nz(b))
		}
		if fmt.Sprint(b.nonzero) != fmt.Sprint(nz(b)) {
			return fmt.Sprintf("iteration over the decoded object visits %v, its non-zero positions are %v", b.nonzero, nz(b))
		}
	}
	return ""
}

/* fresh decode targets ------------------------------------------------------------ */

// fresh returns a pointer-like object of the same concrete type as proto that
// implements the decoder interfaces, and a getter for the decoded value.
func (a *artifact) target() (target interface{}, get func() interface{}) {
	if a.dirty != nil {
		d := a.dirty()
		if reflect.TypeOf(d).Kind() == reflect.Ptr {
			return d, func() interface{} { return d }
		}
		p := reflect.New(reflect.TypeOf(d))
		p.Elem().Set(reflect.ValueOf(d))
		return p.Interface(), func() interface{} { return p.Elem().Interface() }
	}
	return fresh(a.proto)
}

func fresh(proto interface{}) (target interface{}, get func() interface{}) {
	rt := reflect.TypeOf(proto)
	if rt.Kind() == reflect.Ptr {
		p := reflect.New(rt.Elem())
		return p.Interface(), func() interface{} { return p.Interface() }
	}
	p := reflect.New(rt)
	return p.Interface(), func() interface{} { return p.Elem().Interface() }
}

/* artifacts -------------------------------------------------------------------------- */

// artifact is one value to be serialised, with everything the oracles need.
type artifact struct {
	desc    string
	class   string // "Scalar" | "DenseVector" | "SparseVector" | "DenseMatrix" | "SparseMatrix" | "ConstScalar" | "SparseConstVector"
	e       elemType
	obj     interface{} // the object as the caller holds it (possibly a view)
	proto   interface{} // an object of the concrete type to decode into
	sparse  bool
	view    string
	// dirty, if set, is a used object (a view with offsets, a container with
	// old content) of the same concrete type that the readers decode INTO;
	// otherwise they get a fresh zero object
	dirty func() interface{}
}

func newVector(e elemType, sparse bool, vals []float64) ad.Vector {
	var v ad.Vector
	if sparse {
		v = ad.NullSparseVector(e.t, len(vals))
	} else {
		v = ad.NullDenseVector(e.t, len(vals))
	}
	for i, x := range vals {
		if x != 0 || math.Signbit(x) || !sparse {
			v.At(i).SetFloat64(x)
		}
	}
	return v
}

func newMatrix(e elemType, sparse bool, r, c int, vals []float64) ad.Matrix {
	var m ad.Matrix
	if sparse {
		m = ad.NullSparseMatrix(e.t, r, c)
	} else {
		m = ad.NullDenseMatrix(e.t, r, c)
	}
	for i := 0; i < r; i++ {
		for j := 0; j < c; j++ {
			if x := vals[i*c+j]; x != 0 || math.Signbit(x) || !sparse {
				m.At(i, j).SetFloat64(x)
			}
		}
	}
	return m
}

func attachDerivatives(t *core.Tape, elems []ad.Scalar) string {
	vars := []ad.MagicScalar{}
	for _, s := range elems {
		if ms, ok := s.(ad.MagicScalar); ok && t.Bool(1, 2) {
			vars = append(vars, ms)
		}
	}
	if len(vars) == 0 || len(vars) > 4 {
		return ""
	}
	order := t.Range(1, 2)
	if pv, _ := core.Try(func() { ad.Variables(order, vars...) }); pv != nil {
		return ""
	}
	// make the derivative state less trivial than unit vectors
	if t.Bool(1, 2) && math.Abs(vars[0].GetFloat64()) < 1e15 && math.Abs(vars[len(vars)-1].GetFloat64()) < 1e15 {
		// x <- 2 x y: non-trivial gradient and Hessian, values stay finite
		vars[0].Mul(vars[0], vars[len(vars)-1])
		vars[0].Add(vars[0], vars[0])
	}
	return fmt.Sprintf(" +derivatives(order %d, %d variables)", order, len(vars))
}

func genArtifact(t *core.Tape, family string, noEmptyDense bool) *artifact {
	e := pickType(t)
	a := &artifact{e: e}
	switch family {
	case "scalar":
		if t.Bool(1, 4) {
			// constant scalar types: encode only, decode into the mutable type
			x := e.value(t)
			if e.isReal() {
				e = elemTypes[0]
				a.e = e
			}
			a.class = "ConstScalar"
			a.obj = constScalar(e, x)
			a.proto = ad.NullScalar(e.t)
			a.desc = fmt.Sprintf("const %s scalar %v", e.name, x)
			return a
		}
		s := ad.NewScalar(e.t, e.value(t))
		a.class = "Scalar"
		a.desc = fmt.Sprintf("%s scalar %v", e.name, s.GetFloat64())
		if e.isReal() {
			a.desc += attachDerivatives(t, []ad.Scalar{s, ad.NewScalar(e.t, e.value(t))})
		}
		a.obj, a.proto = s, ad.NullScalar(e.t)
	case "vector":
		a.sparse = t.Bool(1, 2)
		n := t.Pick([]int{1, 2, 3, 3, 3, 2, 2, 1, 1})
		vals := values(t, e, n)
		v := newVector(e, a.sparse, vals)
		a.class = map[bool]string{true: "SparseVector", false: "DenseVector"}[a.sparse]
		a.desc = fmt.Sprintf("%s %s vector %v", storageName(a.sparse), e.name, vals)
		if e.isReal() && n > 0 {
			el := []ad.Scalar{}
			for i := 0; i < n; i++ {
				el = append(el, v.At(i))
			}
			a.desc += attachDerivatives(t, el)
		}
		a.obj, a.proto = v, v
		if t.Bool(1, 3) {
			// decode into a used receiver: old content, for dense a slice
			sp, dn, lo := a.sparse, t.Range(0, 6), t.Choose(3)
			dv := values(t, e, dn)
			a.dirty = func() interface{} {
				u := newVector(e, sp, dv)
				if !sp && lo <= dn {
					return u.Slice(lo, dn)
				}
				return u
			}
			a.desc += " (decoded into a used receiver)"
		}
		if !a.sparse && n > 0 && t.Bool(1, 3) {
			lo := t.Choose(n + 1)
			hi := lo + t.Choose(n-lo+1)
			a.obj = v.Slice(lo, hi)
			a.view = fmt.Sprintf(".Slice(%d,%d)", lo, hi)
		}
	case "long":
		// one text line longer than a reader's buffer (bufio: 4096 bytes, a
		// bufio.Scanner token: 65536): many elements, values not printed
		a.sparse = t.Bool(1, 3)
		n := t.Pick([]int{3, 3, 1}) // index into the sizes below
		n = []int{600, 2500, 40000}[n]
		vals := values(t, e, n)
		if a.sparse {
			for i := range vals {
				if i%3 != 0 {
					vals[i] = 0
				}
			}
		}
		sum := 0.0
		for i, x := range vals {
			if !math.IsNaN(x) && !math.IsInf(x, 0) {
				sum += float64(i%7+1) * math.Mod(x, 1024)
			}
		}
		if t.Bool(1, 2) {
			v := newVector(e, a.sparse, vals)
			a.class = map[bool]string{true: "SparseVector", false: "DenseVector"}[a.sparse]
			a.desc = fmt.Sprintf("%s %s vector of %d drawn elements (weighted checksum %g)", storageName(a.sparse), e.name, n, sum)
			a.obj, a.proto = v, v
		} else {
			r := t.Range(1, 3)
			c := n / r
			m := newMatrix(e, a.sparse, r, c, vals[:r*c])
			a.class = map[bool]string{true: "SparseMatrix", false: "DenseMatrix"}[a.sparse]
			a.desc = fmt.Sprintf("%s %s matrix %dx%d of drawn elements (weighted checksum %g)", storageName(a.sparse), e.name, r, c, sum)
			a.obj, a.proto = m, m
		}
	case "matrix":
		a.sparse = t.Bool(1, 2)
		r, c := t.Range(0, 4), t.Range(0, 4)
		if t.Bool(5, 6) {
			r, c = t.Range(1, 4), t.Range(1, 4)
		}
		if noEmptyDense && !a.sparse && (r == 0) != (c == 0) {
			r, c = 1, 1
		}
		vals := values(t, e, r*c)
		m := newMatrix(e, a.sparse, r, c, vals)
		a.class = map[bool]string{true: "SparseMatrix", false: "DenseMatrix"}[a.sparse]
		a.desc = fmt.Sprintf("%s %s matrix %dx%d %v", storageName(a.sparse), e.name, r, c, vals)
		if e.isReal() && r*c > 0 {
			el := []ad.Scalar{}
			for i := 0; i < r*c; i++ {
				el = append(el, m.At(i/c, i%c))
			}
			a.desc += attachDerivatives(t, el)
		}
		a.proto = m
		if t.Bool(1, 3) {
			// decode into a used receiver: a sliced / transposed view with old content
			sp, dr, dc := a.sparse, t.Range(1, 4), t.Range(1, 4)
			dv := values(t, e, dr*dc)
			r0, c0, tr := t.Choose(dr), t.Choose(dc), t.Bool(1, 2)
			a.dirty = func() interface{} {
				u := newMatrix(e, sp, dr, dc, dv).Slice(r0, dr, c0, dc)
				if tr && !sp {
					u = u.T()
				}
				return u
			}
			a.desc += " (decoded into a used receiver)"
		}
		cur := m
		for d := t.Choose(3); d > 0; d-- {
			rr, cc := cur.Dims()
			if t.Bool(1, 2) && !a.sparse {
				cur = cur.T()
				a.view += ".T()"
			} else {
				r0 := t.Choose(rr + 1)
				r1 := r0 + t.Choose(rr-r0+1)
				c0 := t.Choose(cc + 1)
				c1 := c0 + t.Choose(cc-c0+1)
				if noEmptyDense && !a.sparse && (r1 == r0) != (c1 == c0) {
					r0, r1, c0, c1 = 0, rr, 0, cc
				}
				cur = cur.Slice(r0, r1, c0, c1)
				a.view += fmt.Sprintf(".Slice(%d,%d,%d,%d)", r0, r1, c0, c1)
			}
		}
		a.obj = cur
	}
	a.desc += a.view
	return a
}

func constScalar(e elemType, x float64) ad.ConstScalar {
	switch e.name {
	case "float32":
		return ad.ConstFloat32(float32(x))
	case "int":
		return ad.ConstInt(int(x))
	case "int64":
		return ad.ConstInt64(int64(x))
	case "int32":
		return ad.ConstInt32(int32(x))
	case "int16":
		return ad.ConstInt16(int16(x))
	case "int8":
		return ad.ConstInt8(int8(x))
	}
	return ad.ConstFloat64(x)
}

func storageName(sparse bool) string {
	if sparse {
		return "sparse"
	}
	return "dense"
}

/* codecs ------------------------------------------------------------------------------ */

type exporter interface{ Export(string) error }
type importer interface{ Import(string) error }

var scratchDir string

func scratch() string {
	if scratchDir == "" {
		d, err := os.MkdirTemp("", "verif-store-")
		if err != nil {
			panic(err)
		}
		scratchDir = d
	}
	return scratchDir
}

// Cleanup removes the scratch directory of this process.
func Cleanup() {
	if scratchDir != "" {
		os.RemoveAll(scratchDir)
		scratchDir = ""
	}
}

func encodeJSON(a *artifact) ([]byte, error) {
	m, ok := a.obj.(json.Marshaler)
	if !ok {
		return nil, fmt.Errorf("%T has no MarshalJSON", a.obj)
	}
	return m.MarshalJSON()
}

func decodeJSON(a *artifact, data []byte) (interface{}, error) {
	target, get := a.target()
	u, ok := target.(json.Unmarshaler)
	if !ok {
		return nil, fmt.Errorf("%T has no UnmarshalJSON", target)
	}
	if a.class == "Scalar" || a.class == "ConstScalar" {
		// scalars with pointer-wrapped storage need an allocated target
		s := ad.NullScalar(a.e.t)
		if err := s.(json.Unmarshaler).UnmarshalJSON(data); err != nil {
			return nil, err
		}
		return s, nil
	}
	if err := u.UnmarshalJSON(data); err != nil {
		return nil, err
	}
	return get(), nil
}

func encodeTable(a *artifact) ([]byte, error) {
	x, ok := a.obj.(exporter)
	if !ok {
		return nil, fmt.Errorf("%T has no Export", a.obj)
	}
	fn := filepath.Join(scratch(), "w.table")
	// an older, longer file at the path must be replaced, not overwritten in place
	if err := os.WriteFile(fn, []byte(strings.Repeat("9 9 9 9 9 9 9 9 9 9 9 9\n", 40)), 0o644); err != nil {
		panic(err)
	}
	if err := x.Export(fn); err != nil {
		return nil, err
	}
	return os.ReadFile(fn)
}

func decodeTableFile(a *artifact, fn string) (interface{}, error) {
	target, get := a.target()
	im, ok := target.(importer)
	if !ok {
		return nil, fmt.Errorf("%T has no Import", target)
	}
	if err := im.Import(fn); err != nil {
		return nil, err
	}
	return get(), nil
}

func decodeTable(a *artifact, data []byte) (interface{}, error) {
	fn := filepath.Join(scratch(), "r.table")
	if err := os.WriteFile(fn, data, 0o644); err != nil {
		panic(err)
	}
	return decodeTableFile(a, fn)
}

func describeBytes(b []byte) string {
	s := string(b)
	if len(s) > 300 {
		s = s[:300] + "…"
	}
	return strings.ReplaceAll(s, "\n", "\\n")
}
