package store

import (
	"bytes"
	"encoding/json"
	"errors"
	"fmt"
	"io"
	"math"
	"os"
	"path/filepath"
	"strings"

	ad "github.com/pbenner/autodiff"
	st "github.com/pbenner/autodiff/statistics"
	gn "github.com/pbenner/autodiff/statistics/generic"
	md "github.com/pbenner/autodiff/statistics/matrixDistribution"
	sd "github.com/pbenner/autodiff/statistics/scalarDistribution"
	vd "github.com/pbenner/autodiff/statistics/vectorDistribution"
	"verif/sim/core"
)

/* distributions as configurations ---------------------------------------------------
 *
 * Medium: a simulated stream between ConfigDistribution.WriteJson and
 * ReadJson (short reads, read error at byte k, writer that fails or writes
 * short at byte k) and files for ExportDistribution / ImportDistribution.
 */

var rt = ad.Real64Type

func pos(t *core.Tape) ad.Scalar { return ad.NewScalar(rt, float64(t.Range(1, 12))/4) }
func prob(t *core.Tape) ad.Scalar { return ad.NewScalar(rt, float64(t.Range(1, 7))/8) }
func anyv(t *core.Tape) ad.Scalar { return ad.NewScalar(rt, float64(t.Range(-8, 8))/4) }

type dist struct {
	name string
	kind string // scalar | vector | matrix
	d    st.ConfigurableDistribution
	// matrix densities: shape of a probe point (rows, columns); spd: the
	// density is defined on symmetric positive definite matrices
	shape [2]int
	spd   bool
	// relative tolerance on the numbers of the configuration (0: 1e-12)
	tol float64
	// families that are no scalar / vector / matrix density and therefore in
	// no registry: imported into a fresh object of their type
	direct func(cfg st.ConfigDistribution) (st.ConfigurableDistribution, error)
}

// miid: rows x n matrix density of independent rows (the constructor wants the
// number of rows to be a multiple of the row dimension)
func miid(t *core.Tape, n, mult int) (st.MatrixPdf, int) {
	d, err := md.NewVectorIid(vnormal(t, n), n*mult)
	if err != nil {
		panic(err)
	}
	return d, n * mult
}

// restrictStates: start and final state restrictions are part of the model (one
// state each at most, see the note at the plain HMM)
//
// A setter that returns an error (a hierarchical or constrained transition
// matrix cannot be renormalised for a final state) leaves the model half
// updated; such a model is not used any further (errRestriction).
func restrictStates(t *core.Tape, m int, setStart, setFinal func([]int) error) (string, error) {
	r := ""
	if t.Bool(1, 2) {
		ss := []int{t.Choose(m)}
		if err := setStart(ss); err != nil {
			return "", err
		}
		r += fmt.Sprintf("start=%v,", ss)
	}
	if t.Bool(1, 2) {
		fs := []int{t.Choose(m)}
		if err := setFinal(fs); err != nil {
			return "", err
		}
		r += fmt.Sprintf("final=%v,", fs)
	}
	return r, nil
}

// stateMapFor draws a state map for m states with contiguously numbered emissions
func stateMapFor(t *core.Tape, m int) ([]int, int) {
	stateMap := make([]int, m)
	nem := 1
	for i := 1; i < m; i++ {
		stateMap[i] = t.Choose(nem + 1)
		if stateMap[i] == nem {
			nem++
		}
	}
	return stateMap, nem
}

// hmmTree draws a tree over m states: flat (one leaf per block) or nested
func hmmTree(t *core.Tape, m int) (gn.HmmNode, string) {
	// blocks of consecutive states
	cuts := []int{0}
	for i := 1; i < m; i++ {
		if t.Bool(1, 2) {
			cuts = append(cuts, i)
		}
	}
	cuts = append(cuts, m)
	leaves := []gn.HmmNode{}
	for i := 0; i+1 < len(cuts); i++ {
		leaves = append(leaves, gn.NewHmmLeaf(cuts[i], cuts[i+1]))
	}
	if len(leaves) >= 3 && t.Bool(1, 2) {
		// nested: ((first, second), rest...)
		inner := gn.NewHmmNode(leaves[0], leaves[1])
		return gn.NewHmmNode(append([]gn.HmmNode{inner}, leaves[2:]...)...), fmt.Sprintf("nested tree over blocks %v", cuts)
	}
	if len(leaves) == 1 && t.Bool(1, 2) {
		return leaves[0], fmt.Sprintf("single leaf %v", cuts)
	}
	return gn.NewHmmNode(leaves...), fmt.Sprintf("flat tree over blocks %v", cuts)
}

func vnormal(t *core.Tape, n int) st.VectorPdf {
	mu := ad.NullDenseReal64Vector(n)
	for j := 0; j < n; j++ {
		mu.At(j).Set(anyv(t))
	}
	d, err := vd.NewNormalDistribution(mu, spdMatrix(t, n))
	if err != nil {
		panic(err)
	}
	return d
}

func genMatrixPdf(t *core.Tape) *dist {
	n := t.Range(1, 2) // columns: dimension of the vector emissions
	switch k := t.Choose(9); k {
	case 7:
		m := t.Range(2, 3)
		stateMap, nem := stateMapFor(t, m)
		ed := make([]st.VectorPdf, nem)
		for i := range ed {
			ed[i] = vnormal(t, n)
		}
		cons := []gn.EqualityConstraint{}
		if t.Bool(2, 3) {
			i1, j1, i2, j2 := t.Choose(m), t.Choose(m), t.Choose(m), t.Choose(m)
			if i1 != i2 || j1 != j2 {
				cons = append(cons, gn.EqualityConstraint{{i1, j1}, {i2, j2}})
			}
		}
		if d, err := md.NewConstrainedHmm(weights(t, m), stochastic(t, m), stateMap, ed, cons); err == nil {
			if rs, err := restrictStates(t, m, d.SetStartStates, d.SetFinalStates); err == nil {
				return &dist{name: fmt.Sprintf("matrix constrained hmm(states=%d,stateMap=%v,constraints=%v,%snormal(%d))", m, stateMap, cons, rs, n), kind: "matrix", d: d, shape: [2]int{t.Range(1, 3), n}, tol: 1e-7}
			}
		}
	case 8:
		nn := t.Range(1, 3)
		mu := ad.NullDenseReal64Vector(nn)
		for j := 0; j < nn; j++ {
			mu.At(j).Set(anyv(t))
		}
		nu := ad.NewScalar(rt, float64(nn)+float64(t.Range(0, 6))/2)
		if d, err := md.NewNormalIWishartDistribution(pos(t), nu, mu, spdMatrix(t, nn)); err == nil {
			return &dist{name: fmt.Sprintf("normal inverse wishart(nu=%g,%dx%d)", nu.GetFloat64(), nn, nn), kind: "matrix", d: d,
				direct: func(cfg st.ConfigDistribution) (st.ConfigurableDistribution, error) {
					r := new(md.NormalIWishartDistribution)
					if err := r.ImportConfig(cfg, rt); err != nil {
						return nil, err
					}
					return r, nil
				}}
		}
	case 1:
		rows := t.Range(1, 3)
		ds := make([]st.VectorPdf, rows)
		for i := range ds {
			ds[i] = vnormal(t, n)
		}
		if d, err := md.NewVectorId(ds...); err == nil {
			return &dist{name: fmt.Sprintf("matrix vector id(%d x normal(%d))", rows, n), kind: "matrix", d: d, shape: [2]int{rows, n}}
		}
	case 2, 6:
		m := t.Range(1, 3)
		stateMap, nem := stateMapFor(t, m)
		ed := make([]st.VectorPdf, nem)
		for i := range ed {
			ed[i] = vnormal(t, n)
		}
		shape := [2]int{t.Range(1, 3), n}
		if k == 2 {
			if d, err := md.NewHmm(weights(t, m), stochastic(t, m), stateMap, ed); err == nil {
				if rs, err := restrictStates(t, m, d.SetStartStates, d.SetFinalStates); err == nil {
					return &dist{name: fmt.Sprintf("matrix hmm(states=%d,stateMap=%v,%snormal(%d))", m, stateMap, rs, n), kind: "matrix", d: d, shape: shape}
				}
			}
		} else {
			tree, tn := hmmTree(t, m)
			if d, err := md.NewHierarchicalHmm(weights(t, m), stochastic(t, m), stateMap, ed, tree); err == nil {
				if rs, err := restrictStates(t, m, d.SetStartStates, d.SetFinalStates); err == nil {
					return &dist{name: fmt.Sprintf("matrix hierarchical hmm(states=%d,stateMap=%v,%s,%snormal(%d))", m, stateMap, tn, rs, n), kind: "matrix", d: d, shape: shape}
				}
			}
		}
	case 3:
		kk := t.Range(1, 3)
		mult := t.Range(1, 2)
		rows := n * mult
		ed := make([]st.MatrixPdf, kk)
		for i := range ed {
			ed[i], _ = miid(t, n, mult)
		}
		if d, err := md.NewMixture(weights(t, kk), ed); err == nil {
			return &dist{name: fmt.Sprintf("matrix mixture(%d x vector iid(normal(%d),%d))", kk, n, rows), kind: "matrix", d: d, shape: [2]int{rows, n}}
		}
	case 4:
		m := t.Range(1, 3)
		stateMap, nem := stateMapFor(t, m)
		mult := []int{1, 3}[t.Choose(2)]
		rows := n * mult
		ed := make([]st.MatrixPdf, nem)
		for i := range ed {
			ed[i], _ = miid(t, n, mult)
		}
		if d, err := md.NewShapeHmm(weights(t, m), stochastic(t, m), stateMap, ed); err == nil {
			if rs, err := restrictStates(t, m, d.SetStartStates, d.SetFinalStates); err == nil {
				return &dist{name: fmt.Sprintf("shape hmm(states=%d,stateMap=%v,%svector iid(normal(%d),%d))", m, stateMap, rs, n, rows), kind: "matrix", d: d, shape: [2]int{rows + t.Range(0, 2), n}}
			}
		}
	case 5:
		nn := t.Range(1, 3)
		nu := ad.NewScalar(rt, float64(nn)+float64(t.Range(0, 6))/2)
		if d, err := md.NewInverseWishartDistribution(nu, spdMatrix(t, nn)); err == nil {
			return &dist{name: fmt.Sprintf("inverse wishart(nu=%g,%dx%d)", nu.GetFloat64(), nn, nn), kind: "matrix", d: d, shape: [2]int{nn, nn}, spd: true}
		}
	}
	in, nm := genVectorPdf(t, 1)
	rows := t.Range(1, 2)
	d, err := md.NewVectorIid(in, rows)
	if err != nil {
		x, nn := genScalarPdf(t, 0)
		return &dist{name: nn, kind: "scalar", d: x}
	}
	return &dist{name: "matrix vector iid(" + nm + ")", kind: "matrix", d: d, shape: [2]int{rows, in.Dim()}}
}

func weights(t *core.Tape, n int) ad.Vector {
	w := make([]float64, n)
	s := 0.0
	for i := range w {
		w[i] = float64(t.Range(1, 5))
		s += w[i]
	}
	for i := range w {
		w[i] /= s
	}
	return ad.NewDenseFloat64Vector(w)
}

func genScalarPdf(t *core.Tape, depth int) (st.ScalarPdf, string) {
	k := t.Choose(21)
	if depth >= 2 && k >= 18 {
		k = t.Choose(18)
	}
	var d st.ScalarPdf
	var err error
	name := ""
	switch k {
	case 0:
		name = "normal"
		d, err = sd.NewNormalDistribution(anyv(t), pos(t))
	case 1:
		name = "gamma"
		d, err = sd.NewGammaDistribution(pos(t), pos(t))
	case 2:
		name = "beta"
		d, err = sd.NewBetaDistribution(pos(t), pos(t), t.Bool(1, 2))
	case 3:
		name = "cauchy"
		d, err = sd.NewCauchyDistribution(anyv(t), pos(t))
	case 4:
		name = "exponential"
		d, err = sd.NewExponentialDistribution(pos(t))
	case 5:
		name = "laplace"
		d, err = sd.NewLaplaceDistribution(anyv(t), pos(t))
	case 6:
		name = "pareto"
		d, err = sd.NewParetoDistribution(pos(t), pos(t))
	case 7:
		name = "poisson"
		d, err = sd.NewPoissonDistribution(pos(t))
	case 8:
		name = "geometric"
		d, err = sd.NewGeometricDistribution(prob(t))
	case 9:
		name = "negative binomial"
		d, err = sd.NewNegativeBinomialDistribution(pos(t), prob(t))
	case 10:
		name = "gev"
		d, err = sd.NewGevDistribution(anyv(t), pos(t), anyv(t))
	case 11:
		name = "generalized gamma"
		d, err = sd.NewGeneralizedGammaDistribution(pos(t), pos(t), pos(t))
	case 12:
		name = "binomial"
		d, err = sd.NewBinomialDistribution(prob(t), t.Range(1, 20))
	case 13:
		name = "categorical"
		d, err = sd.NewCategoricalDistribution(ad.AsDenseReal64Vector(weights(t, t.Range(1, 4))))
	case 14:
		name = "delta"
		d, err = sd.NewDeltaDistribution(anyv(t))
	case 15:
		name = "chi squared"
		d, err = sd.NewChiSquaredDistribution(rt, float64(t.Range(1, 9)))
	case 16:
		name = "power law"
		d, err = sd.NewPowerLawDistribution(ad.NewScalar(rt, 1+float64(t.Range(1, 8))/4), pos(t))
	case 17:
		name = "generalized pareto"
		d, err = sd.NewGParetoDistribution(anyv(t), pos(t), anyv(t))
	case 18:
		n := t.Range(1, 3)
		ed := make([]st.ScalarPdf, n)
		name = "mixture("
		for i := range ed {
			var nm string
			ed[i], nm = genScalarPdf(t, depth+1)
			name += nm + ","
		}
		name += ")"
		d, err = sd.NewMixture(weights(t, n), ed)
	case 19:
		in, nm := genScalarPdf(t, depth+1)
		name = "translation(" + nm + ")"
		d, err = sd.NewPdfTranslation(in, float64(t.Range(0, 4))/2)
	case 20:
		in, nm := genScalarPdf(t, depth+1)
		name = "logtransform(" + nm + ")"
		d, err = sd.NewPdfLogTransform(in, float64(t.Range(0, 4))/2)
	}
	if err != nil || d == nil {
		x, _ := sd.NewNormalDistribution(anyv(t), pos(t))
		return x, "normal"
	}
	return d, name
}

func spdMatrix(t *core.Tape, n int) ad.Matrix {
	b := make([]float64, n*n)
	for i := range b {
		b[i] = float64(t.Range(-3, 3)) / 2
	}
	a := make([]float64, n*n)
	for i := 0; i < n; i++ {
		for j := 0; j < n; j++ {
			for k := 0; k < n; k++ {
				a[i*n+j] += b[i*n+k] * b[j*n+k]
			}
			if i == j {
				a[i*n+j] += float64(n)
			}
		}
	}
	return ad.NewDenseReal64Matrix(a, n, n)
}

func stochastic(t *core.Tape, n int) ad.Matrix {
	a := make([]float64, n*n)
	for i := 0; i < n; i++ {
		w := weights(t, n)
		for j := 0; j < n; j++ {
			a[i*n+j] = w.Float64At(j)
		}
	}
	return ad.NewDenseFloat64Matrix(a, n, n)
}

func genVectorPdf(t *core.Tape, depth int) (st.VectorPdf, string) {
	k := t.Choose(12)
	if depth >= 1 && k >= 5 && k != 8 && k != 9 {
		k = t.Choose(5)
	}
	var d st.VectorPdf
	var err error
	name := ""
	n := t.Range(1, 3)
	switch k {
	case 0:
		name = fmt.Sprintf("vector normal(%d)", n)
		mu := ad.NullDenseReal64Vector(n)
		for i := 0; i < n; i++ {
			mu.At(i).Set(anyv(t))
		}
		d, err = vd.NewNormalDistribution(mu, spdMatrix(t, n))
	case 1:
		in, nm := genScalarPdf(t, 1)
		name = fmt.Sprintf("scalar iid(%s,%d)", nm, n)
		d, err = vd.NewScalarIid(in, n)
	case 2:
		ds := make([]st.ScalarPdf, n)
		name = "scalar id("
		for i := range ds {
			var nm string
			ds[i], nm = genScalarPdf(t, 1)
			name += nm + ","
		}
		name += ")"
		d, err = vd.NewScalarId(ds...)
	case 3:
		// hidden Markov model, possibly with tied emissions
		m := t.Range(1, 3)
		stateMap := make([]int, m)
		nem := 1
		for i := range stateMap {
			stateMap[i] = t.Choose(nem + 1)
			if stateMap[i] == nem {
				nem++
			}
		}
		stateMap[0] = 0
		mx := 0
		for _, s := range stateMap {
			if s > mx {
				mx = s
			}
		}
		// emissions must be used contiguously: renumber
		used := map[int]int{}
		for i, s := range stateMap {
			if _, ok := used[s]; !ok {
				used[s] = len(used)
			}
			stateMap[i] = used[s]
		}
		ed := make([]st.ScalarPdf, len(used))
		name = fmt.Sprintf("hmm(states=%d,stateMap=%v,", m, stateMap)
		for i := range ed {
			var nm string
			ed[i], nm = genScalarPdf(t, 2)
			name += nm + ","
		}
		name += ")"
		var h *vd.Hmm
		trm := stochastic(t, m)
		if t.Bool(1, 3) {
			// the transition matrix handed over as a transposed view
			trm = trm.T()
			name += "transposed transition matrix,"
		}
		h, err = vd.NewHmm(weights(t, m), trm, stateMap, ed)
		if err == nil {
			// start and final state restrictions are part of the model.  One
			// state each at most: the library keeps them in a Go map and writes
			// them out in map order, so a set of two or more states gives a
			// different (equivalent) text on every export -- which no seed
			// controls and which would make runs unrepeatable
			if t.Bool(1, 2) {
				ss := []int{t.Choose(m)}
				if h.SetStartStates(ss) == nil {
					name += fmt.Sprintf("start=%v,", ss)
				}
			}
			if t.Bool(1, 2) {
				fs := []int{t.Choose(m)}
				if h.SetFinalStates(fs) == nil {
					name += fmt.Sprintf("final=%v,", fs)
				}
			}
			d = h
		}
	case 4:
		name = fmt.Sprintf("skew normal(%d)", n)
		xi, alpha, scale := ad.NullDenseReal64Vector(n), ad.NullDenseReal64Vector(n), ad.NullDenseReal64Vector(n)
		for i := 0; i < n; i++ {
			xi.At(i).Set(anyv(t))
			alpha.At(i).Set(anyv(t))
			scale.At(i).Set(pos(t))
		}
		d, err = vd.NewSkewNormalDistribution(xi, spdMatrix(t, n), alpha, scale)
	case 5:
		k := t.Range(1, 2)
		ed := make([]st.VectorPdf, k)
		name = "vector mixture("
		for i := range ed {
			mu := ad.NullDenseReal64Vector(n)
			for j := 0; j < n; j++ {
				mu.At(j).Set(anyv(t))
			}
			ed[i], _ = vd.NewNormalDistribution(mu, spdMatrix(t, n))
			name += "normal,"
		}
		name += ")"
		d, err = vd.NewMixture(weights(t, k), ed)
	case 6:
		in, nm := genVectorPdf(t, depth+1)
		name = "vector iid(" + nm + ")"
		d, err = vd.NewVectorIid(in, t.Range(1, 3))
	case 10:
		name = fmt.Sprintf("vector t(%d)", n)
		mu := ad.NullDenseReal64Vector(n)
		for i := 0; i < n; i++ {
			mu.At(i).Set(anyv(t))
		}
		d, err = vd.NewTDistribution(pos(t), mu, spdMatrix(t, n))
	case 11:
		name = fmt.Sprintf("logistic regression(%d)", n)
		theta := ad.NullDenseReal64Vector(n + 1)
		for i := 0; i <= n; i++ {
			theta.At(i).Set(anyv(t))
		}
		d, err = vd.NewLogisticRegression(theta)
	case 8, 9:
		// hidden Markov models with tied transition parameters (equality
		// constraints) or a hierarchy of state blocks
		m := t.Range(2, 4)
		stateMap, nem := stateMapFor(t, m)
		ed := make([]st.ScalarPdf, nem)
		names := ""
		for i := range ed {
			var nm string
			ed[i], nm = genScalarPdf(t, 2)
			names += nm + ","
		}
		if k == 8 {
			cons := []gn.EqualityConstraint{}
			if t.Bool(2, 3) {
				i1, j1, i2, j2 := t.Choose(m), t.Choose(m), t.Choose(m), t.Choose(m)
				if i1 != i2 || j1 != j2 {
					cons = append(cons, gn.EqualityConstraint{{i1, j1}, {i2, j2}})
				}
			}
			name = fmt.Sprintf("constrained hmm(states=%d,stateMap=%v,constraints=%v,%s)", m, stateMap, cons, names)
			var h *vd.Chmm
			if h, err = vd.NewConstrainedHmm(weights(t, m), stochastic(t, m), stateMap, ed, cons); err == nil {
				var rs string
				if rs, err = restrictStates(t, m, h.SetStartStates, h.SetFinalStates); err == nil {
					name += rs
					d = h
				}
			}
		} else {
			tree, tn := hmmTree(t, m)
			name = fmt.Sprintf("hierarchical hmm(states=%d,stateMap=%v,%s,%s)", m, stateMap, tn, names)
			var h *vd.Hhmm
			if h, err = vd.NewHierarchicalHmm(weights(t, m), stochastic(t, m), stateMap, ed, tree); err == nil {
				var rs string
				if rs, err = restrictStates(t, m, h.SetStartStates, h.SetFinalStates); err == nil {
					name += rs
					d = h
				}
			}
		}
	case 7:
		a, n1 := genVectorPdf(t, depth+1)
		b, n2 := genVectorPdf(t, depth+1)
		name = "vector id(" + n1 + "," + n2 + ")"
		d, err = vd.NewVectorId(a, b)
	}
	if err != nil || d == nil {
		mu := ad.NullDenseReal64Vector(n)
		x, _ := vd.NewNormalDistribution(mu, spdMatrix(t, n))
		return x, fmt.Sprintf("vector normal(%d)", n)
	}
	return d, name
}

func genDist(t *core.Tape) *dist {
	var r *dist
	switch t.Pick([]int{5, 4, 2}) {
	case 0:
		d, n := genScalarPdf(t, 0)
		r = &dist{name: n, kind: "scalar", d: d}
	case 1:
		d, n := genVectorPdf(t, 0)
		r = &dist{name: n, kind: "vector", d: d}
	default:
		r = genMatrixPdf(t)
	}
	if strings.Contains(r.name, "constrained hmm") && r.tol == 0 {
		// the family's constructor (also used by the importer) normalises the
		// tied transition parameters with a root finder that stops at 1e-8;
		// also when the model is wrapped (vector id / iid, matrix vector iid)
		r.tol = 1e-7
	}
	return r
}

func (d *dist) importConfig(cfg st.ConfigDistribution) (st.ConfigurableDistribution, error) {
	if d.direct != nil {
		return d.direct(cfg)
	}
	switch d.kind {
	case "scalar":
		return st.ImportScalarPdfConfig(cfg, rt)
	case "vector":
		return st.ImportVectorPdfConfig(cfg, rt)
	default:
		return st.ImportMatrixPdfConfig(cfg, rt)
	}
}

// flat lists every number of a configuration tree (parameters and nested
// distributions) together with the names, for comparison.
func flat(cfg st.ConfigDistribution) (names []string, nums []float64) {
	names = append(names, cfg.Name)
	b, _ := json.Marshal(cfg.Parameters)
	var any interface{}
	json.Unmarshal(b, &any)
	var walk func(x interface{})
	walk = func(x interface{}) {
		switch v := x.(type) {
		case float64:
			nums = append(nums, v)
		case []interface{}:
			for _, e := range v {
				walk(e)
			}
		case map[string]interface{}:
			keys := make([]string, 0, len(v))
			for k := range v {
				keys = append(keys, k)
			}
			sortStrings(keys)
			for _, k := range keys {
				names = append(names, k)
				walk(v[k])
			}
		case bool:
			names = append(names, fmt.Sprint(v))
		case string:
			names = append(names, v)
		}
	}
	walk(any)
	for _, sub := range cfg.Distributions {
		n2, x2 := flat(sub)
		names = append(names, n2...)
		nums = append(nums, x2...)
	}
	return
}

func sortStrings(s []string) {
	for i := 1; i < len(s); i++ {
		for j := i; j > 0 && s[j] < s[j-1]; j-- {
			s[j], s[j-1] = s[j-1], s[j]
		}
	}
}

func sameConfig(a, b st.ConfigDistribution, tol float64) string {
	if tol == 0 {
		tol = 1e-12
	}
	n1, x1 := flat(a)
	n2, x2 := flat(b)
	if fmt.Sprint(n1) != fmt.Sprint(n2) {
		return fmt.Sprintf("structure %v became %v", n1, n2)
	}
	if len(x1) != len(x2) {
		return fmt.Sprintf("%d numbers became %d", len(x1), len(x2))
	}
	for i := range x1 {
		if x1[i] != x2[i] && math.Abs(x1[i]-x2[i]) > tol*(1+math.Abs(x1[i])) {
			return fmt.Sprintf("number %d: %v became %v", i, x1[i], x2[i])
		}
	}
	return ""
}

/* simulated stream ------------------------------------------------------------------- */

type simReader struct {
	data   []byte
	pos    int
	chunk  int // max bytes per Read (short reads)
	failAt int // -1: never; otherwise return an error once pos reaches it
	hit    bool
}

var errMedium = errors.New("simulated medium error")

func (r *simReader) Read(p []byte) (int, error) {
	if r.failAt >= 0 && r.pos >= r.failAt {
		r.hit = true
		return 0, errMedium
	}
	if r.pos >= len(r.data) {
		return 0, io.EOF
	}
	n := len(p)
	if n > r.chunk {
		n = r.chunk
	}
	if r.pos+n > len(r.data) {
		n = len(r.data) - r.pos
	}
	if r.failAt >= 0 && r.pos+n > r.failAt {
		n = r.failAt - r.pos
	}
	copy(p, r.data[r.pos:r.pos+n])
	r.pos += n
	return n, nil
}

type simWriter struct {
	buf    bytes.Buffer
	failAt int  // accept this many bytes, then fail
	short  bool // fail by a short write without error (n < len(p), err == nil is illegal for io.Writer; we return io.ErrShortWrite)
	hit    bool
}

func (w *simWriter) Write(p []byte) (int, error) {
	room := w.failAt - w.buf.Len()
	if w.failAt >= 0 && len(p) > room {
		if room < 0 {
			room = 0
		}
		w.buf.Write(p[:room])
		w.hit = true
		if w.short {
			return room, io.ErrShortWrite
		}
		return room, errors.New("simulated medium error: no space left on device")
	}
	return w.buf.Write(p)
}

// probeDensity evaluates both distributions at one drawn point and renders
// the outcomes ("-1.234", "error", "panic"); values within 1e-9 are rendered
// identically.
func probeDensity(t *core.Tape, x, y interface{}, shape [2]int, spd bool, tol float64) (string, string, string) {
	dtol := math.Max(1e-9, 100*tol)
	val := func() float64 { return []float64{0, 1, 2, 3, 0.5, 1.5, -1, 2.5}[t.Choose(8)] }
	render := func(f func(r ad.Scalar) error) (string, float64) {
		r := ad.NewReal64(0)
		var err error
		if pv, _ := core.Try(func() { err = f(r) }); pv != nil {
			return "panic", 0
		}
		if err != nil {
			return "error", 0
		}
		return "", r.GetFloat64()
	}
	cmp := func(fa, fb func(r ad.Scalar) error) (string, string) {
		sa, va := render(fa)
		sb, vb := render(fb)
		// A probe point is only informative where the density is a function
		// of the point: at the edge of a support some components return NaN
		// (that is C14's subject) and the mixtures' scratch state then makes
		// the first evaluation differ from the second one.  Both sides are
		// evaluated twice; NaN or a value that changes on repetition means
		// "not a usable probe point".
		sa2, va2 := render(fa)
		sb2, vb2 := render(fb)
		same2 := func(s1 string, v1 float64, s2 string, v2 float64) bool {
			return s1 == s2 && (v1 == v2 || math.Abs(v1-v2) <= 1e-12*(1+math.Abs(v1)))
		}
		if math.IsNaN(va) || math.IsNaN(vb) || math.IsNaN(va2) || math.IsNaN(vb2) || !same2(sa, va, sa2, va2) || !same2(sb, vb, sb2, vb2) {
			return "same", "same"
		}
		if sa != "" || sb != "" {
			if sa == "" {
				sa = fmt.Sprint(va)
			}
			if sb == "" {
				sb = fmt.Sprint(vb)
			}
			return sa, sb
		}
		if va == vb || (math.IsNaN(va) && math.IsNaN(vb)) || math.Abs(va-vb) <= dtol*(1+math.Abs(va)) {
			return "same", "same"
		}
		return fmt.Sprint(va), fmt.Sprint(vb)
	}
	switch a := x.(type) {
	case st.ScalarPdf:
		b, ok := y.(st.ScalarPdf)
		if !ok {
			return "a scalar density", fmt.Sprintf("%T", y), "-"
		}
		v := ad.NewReal64(val())
		sa, sb := cmp(func(r ad.Scalar) error { return a.LogPdf(r, v) }, func(r ad.Scalar) error { return b.LogPdf(r, v) })
		return sa, sb, fmt.Sprint(v.GetFloat64())
	case st.VectorPdf:
		b, ok := y.(st.VectorPdf)
		if !ok {
			return "a vector density", fmt.Sprintf("%T", y), "-"
		}
		n := a.Dim()
		if n <= 0 {
			n = t.Range(1, 4)
		}
		xs := make([]float64, n)
		for i := range xs {
			xs[i] = val()
		}
		v := ad.NewDenseFloat64Vector(xs)
		sa, sb := cmp(func(r ad.Scalar) error { return a.LogPdf(r, v) }, func(r ad.Scalar) error { return b.LogPdf(r, v) })
		return sa, sb, fmt.Sprint(xs)
	case st.MatrixPdf:
		b, ok := y.(st.MatrixPdf)
		if !ok {
			return "a matrix density", fmt.Sprintf("%T", y), "-"
		}
		rr, cc := a.Dims()
		if shape[0] > 0 {
			rr, cc = shape[0], shape[1]
		}
		if rr <= 0 {
			rr = t.Range(1, 3)
		}
		if cc <= 0 {
			cc = t.Range(1, 3)
		}
		xs := make([]float64, rr*cc)
		for i := range xs {
			xs[i] = val()
		}
		if spd && rr == cc {
			// a symmetric positive definite probe point: B B' + n I
			b := append([]float64{}, xs...)
			for i := 0; i < rr; i++ {
				for j := 0; j < rr; j++ {
					xs[i*rr+j] = 0
					for q := 0; q < rr; q++ {
						xs[i*rr+j] += b[i*rr+q] * b[j*rr+q]
					}
					if i == j {
						xs[i*rr+j] += float64(rr)
					}
				}
			}
		}
		v := ad.NewDenseFloat64Matrix(xs, rr, cc)
		sa, sb := cmp(func(r ad.Scalar) error { return a.LogPdf(r, v) }, func(r ad.Scalar) error { return b.LogPdf(r, v) })
		return sa, sb, fmt.Sprintf("%dx%d %v", rr, cc, xs)
	}
	return "", "", "-"
}

/* the scenario --------------------------------------------------------------------------- */

func runConfig(c *core.Ctx, faults bool) {
	t := c.Tape
	d := genDist(t)
	fail := func(oracle, failure, format string, args ...interface{}) {
		c.Fail(oracle, "Distribution|config|"+failure, format, args...)
	}
	c.Logf("distribution: %s", d.name)
	var cfg st.ConfigDistribution
	if pv, site := core.Try(func() { cfg = d.d.ExportConfig() }); pv != nil {
		fail("writer-no-panic", "ExportConfig|"+siteClass(site)+"|"+core.PanicClass(pv), "ExportConfig of %s panicked in %s: %v", d.name, site, pv)
	}
	// writer through the stream seam
	w := &simWriter{failAt: -1}
	var err error
	if pv, site := core.Try(func() { err = cfg.WriteJson(w) }); pv != nil {
		fail("writer-no-panic", "WriteJson|"+siteClass(site)+"|"+core.PanicClass(pv), "WriteJson of %s panicked in %s: %v", d.name, site, pv)
	}
	if err != nil {
		fail("round-trip", "writer-error", "WriteJson of %s failed: %v", d.name, err)
	}
	data := w.buf.Bytes()
	c.Logf("config (%d bytes): %s", len(data), describeBytes(data))
	read := func(r io.Reader) (st.ConfigurableDistribution, error, interface{}, string) {
		var out st.ConfigurableDistribution
		var err error
		pv, site := core.Try(func() {
			cf := st.ConfigDistribution{}
			if err = cf.ReadJson(r); err != nil {
				return
			}
			out, err = d.importConfig(cf)
		})
		return out, err, pv, site
	}
	if !faults {
		// clean medium, but with short reads: the reader must not depend on chunking
		chunk := []int{1, 2, 7, 4096}[t.Choose(4)]
		got, err, pv, site := read(&simReader{data: data, chunk: chunk, failAt: -1})
		if pv != nil {
			fail("reader-no-panic", "panic-on-own-output|"+siteClass(site)+"|"+core.PanicClass(pv), "importing the exported configuration of %s panicked in %s: %v; config: %s", d.name, site, pv, describeBytes(data))
		}
		if err != nil {
			fail("round-trip", "reader-rejects-own-output", "the exported configuration of %s is rejected by the importer: %v; config: %s", d.name, err, describeBytes(data))
		}
		var cfg2 st.ConfigDistribution
		if pv, site := core.Try(func() { cfg2 = got.ExportConfig() }); pv != nil {
			fail("round-trip", "decoded-object-unusable|"+siteClass(site)+"|"+core.PanicClass(pv), "the imported %s cannot export itself (panic in %s: %v)", d.name, site, pv)
		}
		if diff := sameConfig(cfg, cfg2, d.tol); diff != "" {
			fail("round-trip", "not-equal", "%s does not survive export/import: %s; config: %s", d.name, diff, describeBytes(data))
		}
		// parameters agree
		if a, ok := d.d.(st.BasicDistribution); ok {
			if b, ok := got.(st.BasicDistribution); ok {
				var pa, pb ad.Vector
				if pv, _ := core.Try(func() { pa, pb = a.GetParameters(), b.GetParameters() }); pv == nil && pa != nil && pb != nil {
					if pa.Dim() != pb.Dim() {
						fail("round-trip", "not-equal", "%s: %d parameters became %d", d.name, pa.Dim(), pb.Dim())
					}
					for i := 0; i < pa.Dim(); i++ {
						x, y := pa.Float64At(i), pb.Float64At(i)
						if x != y && math.Abs(x-y) > math.Max(1e-10, d.tol)*(1+math.Abs(x)) && !(math.IsNaN(x) && math.IsNaN(y)) {
							fail("round-trip", "not-equal", "%s: parameter %d = %v became %v", d.name, i, x, y)
						}
					}
				}
			}
		}
		// observably equal: the densities agree at drawn probe points (what
		// a configuration carries beyond its parameter vector -- state
		// restrictions, state maps, dimensions -- shows here)
		for k := 0; k < 4; k++ {
			a, b, where := probeDensity(t, d.d, got, d.shape, d.spd, d.tol)
			if a != b {
				fail("round-trip", "not-equal|density", "%s evaluates to %s at %s, after export/import to %s; config: %s", d.name, a, where, b, describeBytes(data))
			}
		}
		// path based variant
		fn := filepath.Join(scratch(), "dist.json")
		// the state of the medium is part of the run: either no file, or an
		// older, longer file at the same path that the export has to replace
		os.Remove(fn)
		if t.Bool(1, 2) {
			old := append(append([]byte{}, data...), data...)
			if err := os.WriteFile(fn, old, 0o644); err != nil {
				panic(err)
			}
			c.Count("medium:older-longer-file-at-the-path")
		}
		if pv, site := core.Try(func() { err = st.ExportDistribution(fn, d.d) }); pv != nil || err != nil {
			fail("round-trip", "ExportDistribution-failed", "ExportDistribution of %s: err=%v panic=%v %s", d.name, err, pv, site)
		}
		raw, _ := os.ReadFile(fn)
		if !bytes.Equal(raw, data) {
			fail("round-trip", "file-differs-from-stream", "ExportDistribution wrote %d bytes, WriteJson %d", len(raw), len(data))
		}
		c.Steps++
		c.Nontriv = true
		c.StateStr(d.name)
		c.Sample = map[string]interface{}{"distribution": d.name, "bytes": len(data), "read_chunk": chunk}
		return
	}
	/* fault-injecting configuration */
	fam := t.Choose(7)
	famName := []string{"torn", "token", "bitflip", "line", "stream-read-error", "writer-failure", "stale-tail"}[fam]
	n := 0
	accept := func(got st.ConfigurableDistribution, f fault) {
		// an accepted damaged configuration must still be a usable object
		if pv, site := core.Try(func() {
			// export -> JSON -> import: the accepted object must survive its
			// own round trip through the medium
			var buf bytes.Buffer
			if err := got.ExportConfig().WriteJson(&buf); err != nil {
				panic(fmt.Sprintf("own configuration cannot be written: %v", err))
			}
			cf := st.ConfigDistribution{}
			if err := cf.ReadJson(&buf); err != nil {
				panic(fmt.Sprintf("own configuration cannot be read: %v", err))
			}
			if _, err := d.importConfig(cf); err != nil {
				panic(fmt.Sprintf("own configuration rejected: %v", err))
			}
			if b, ok := got.(st.BasicDistribution); ok {
				_ = b.GetParameters()
			}
			if sp, ok := got.(st.ScalarPdf); ok {
				_ = sp.CloneScalarPdf()
				// evaluating the density at an arbitrary point may legitimately
				// panic (point outside the support of a discrete family)
				core.Try(func() { sp.LogPdf(ad.NewScalar(rt, 0), ad.NewScalar(rt, 1)) })
			}
		}); pv != nil {
			fail("silent-corruption", "decoded-object-unusable|"+siteClass(site)+"|"+core.PanicClass(pv), "the importer accepted a damaged configuration (%s: %s) of %s without error, but the distribution it returned panics when used (in %s: %v); input: %s", f.kind, f.desc, d.name, site, pv, describeBytes(f.data))
		}
	}
	switch fam {
	case 0, 1, 2, 3:
		fs, _ := enumerate(famName, data, 160)
		for _, f := range fs {
			got, err, pv, site := read(&simReader{data: f.data, chunk: 4096, failAt: -1})
			c.Steps++
			n++
			c.Count("fault:" + f.kind)
			if pv != nil {
				fail("reader-no-panic", "panic-on-damaged-input|"+siteClass(site)+"|"+core.PanicClass(pv), "importing a damaged configuration (%s: %s) of %s panicked in %s: %v; input: %s", f.kind, f.desc, d.name, site, pv, describeBytes(f.data))
			}
			if err != nil {
				c.Count("outcome:error")
				continue
			}
			c.Count("outcome:accepted")
			accept(got, f)
		}
	case 6:
		// the file was written over an older, longer one that was not truncated:
		// the document is followed by the remains of the older file.  That is
		// not a configuration; the reader has to say so
		older := append(append([]byte{}, data...), data...)
		for k := len(data); k < len(older); k += 1 + len(data)/120 {
			tail := older[k:]
			if len(bytes.TrimSpace(tail)) == 0 {
				continue
			}
			in := append(append([]byte{}, data...), tail...)
			_, err, pv, site := read(&simReader{data: in, chunk: 4096, failAt: -1})
			c.Steps++
			n++
			c.Count("fault:stale-tail")
			if pv != nil {
				fail("reader-no-panic", "panic-on-damaged-input|"+siteClass(site)+"|"+core.PanicClass(pv), "importing a configuration of %s followed by %d bytes of an older file panicked in %s: %v", d.name, len(tail), site, pv)
			}
			if err == nil {
				fail("silent-corruption", "trailing-bytes-accepted", "the configuration of %s followed by the last %d bytes of an older, longer file (%s) was read without an error", d.name, len(tail), describeBytes(tail))
			}
			c.Count("outcome:error")
		}
	case 4:
		// the stream fails at byte k: ReadJson must report the medium's error
		for k := 0; k <= len(data); k += 1 + len(data)/120 {
			r := &simReader{data: data, chunk: 1 + t.Choose(9), failAt: k}
			_, err, pv, site := read(r)
			c.Steps++
			n++
			c.Count("fault:stream-read-error")
			if pv != nil {
				fail("reader-no-panic", "panic-on-stream-error|"+siteClass(site)+"|"+core.PanicClass(pv), "ReadJson panicked when the stream failed at byte %d: %v (%s)", k, pv, site)
			}
			if r.hit && err == nil {
				fail("silent-corruption", "stream-error-swallowed", "the stream failed at byte %d of %d but ReadJson/ImportConfig of %s reported success", k, len(data), d.name)
			}
		}
	case 5:
		// the writer's medium fails at byte k: WriteJson must return the error
		for k := 0; k < len(data); k += 1 + len(data)/120 {
			w := &simWriter{failAt: k, short: t.Bool(1, 2)}
			var err error
			pv, site := core.Try(func() { err = cfg.WriteJson(w) })
			c.Steps++
			n++
			c.Count("fault:writer-failure")
			if pv != nil {
				fail("writer-no-panic", "panic-on-write-error|"+siteClass(site)+"|"+core.PanicClass(pv), "WriteJson panicked when the medium failed at byte %d: %v (%s)", k, pv, site)
			}
			if w.hit && err == nil {
				fail("silent-corruption", "write-error-swallowed", "the medium accepted only %d of %d bytes but WriteJson of %s reported success", k, len(data), d.name)
			}
		}
	}
	c.Nontriv = n > 0
	c.StateStr(d.name + famName)
	c.Sample = map[string]interface{}{"distribution": d.name, "fault_family": famName, "damaged_inputs": n, "bytes": len(data)}
}

func Run(c *core.Ctx) {
	defer func() {
		if len(c.Events) == 0 && !c.Keep {
			// nothing
		}
	}()
	switch c.Scenario {
	case "json-roundtrip":
		runCodec(c, jsonCodec, false)
	case "json-faults":
		runCodec(c, jsonCodec, true)
	case "table-roundtrip":
		runCodec(c, tableCodec, false)
	case "table-faults":
		runCodec(c, tableCodec, true)
	case "config-roundtrip":
		runConfig(c, false)
	case "config-faults":
		runConfig(c, true)
	default:
		panic("unknown scenario " + c.Scenario)
	}
}

func init() {
	core.ExitHooks = append(core.ExitHooks, Cleanup)
	core.Register(&core.Property{
		ID:     "C18",
		Level:  "fault_enumeration",
		Engine: "D: storage simulator",
		Scenarios: []core.Scenario{
			{Name: "json-roundtrip", Weight: 3},
			{Name: "table-roundtrip", Weight: 3},
			{Name: "config-roundtrip", Weight: 2},
			{Name: "json-faults", Weight: 3, Faulty: true},
			{Name: "table-faults", Weight: 3, Faulty: true},
			{Name: "config-faults", Weight: 2, Faulty: true},
		},
		Run:      Run,
		Probes: []core.FindingProbe{
			{ID: "C18-F1", Run: ProbeEmptyTable},
		},
		StepUnit: "inputs delivered to a reader (clean or damaged)",
		Rule: "one run = one artifact drawn by the tape (scalar of 9 mutable + 7 constant types; dense/sparse vector or matrix of 9 element types, possibly a nested Slice/T view, derivatives and Hessians attached for real types; values incl. -0, subnormals, extreme exponents, type bounds; or a distribution of every family that has ExportConfig: 21 scalar families incl. nested mixtures and transforms; vector: normal, skew normal, t, logistic regression, scalar id / iid, vector id / iid, mixture, HMMs with tied emissions and start / final state restrictions, constrained HMM (equality constraints), hierarchical HMM (flat, nested and single-leaf trees); matrix: vector id / iid, HMM, mixture, shape HMM, constrained and hierarchical HMM, inverse Wishart, normal inverse Wishart) written by the real writer. Round-trip scenarios: decode(encode(x)) must be observably equal (elements, derivatives, shape, non-zero positions; for distributions the re-exported configuration, the parameter vector and the log-density at four drawn probe points). Fault scenarios: one fault family is drawn and EVERY position of it is enumerated on the artifact's bytes (all torn prefixes, bit flips, lost/duplicated bytes, zero-filled tails, duplicated blocks, splices with an older file, every number token replaced by 19 hostile tokens, lost/duplicated/swapped lines, gzip container valid/truncated at every byte/corrupt trailer/bare magic, missing file/directory/empty file; for configurations also a stream that fails at byte k, a writer whose medium fails at byte k, and the document followed by the remains of an older, longer file, which must be rejected); the reader must return an error or an object that is fully usable and survives its own round trip. Non-trivial = at least one input delivered. Distinct = distinct (artifact, codec, fault family).",
		Assumptions: []string{
			"a torn or damaged dense table that is still a well-formed shorter/other table is accepted: the format has no checksum and the oracle does not invent one",
			"sparse containers are not required to preserve the sign of zero",
			"int and int64 values are drawn up to 2^53 (the table and JSON readers parse through float64)",
			"distribution parameters may change by 1e-12 relative through log/exp re-parametrisation; a constrained HMM is normalised by a root finder that stops at 1e-8 (also on import), so its numbers are compared at 1e-7 and its log-densities at 1e-5 relative",
			"the normal inverse Wishart distribution is no scalar / vector / matrix density and in no registry: it is imported into a fresh object of its type",
			"densities of matrix families are probed at matrices of the shape the family is defined for (inverse Wishart: symmetric positive definite points)",
			"disk-full on the path based Export is outside the property's statement; writer failure is injected on the io.Writer seam only",
		},
		RealCode:     []string{"MarshalJSON/UnmarshalJSON of all scalar, vector and matrix types; Export/Import incl. gzip detection; ConfigDistribution.WriteJson/ReadJson, ExportDistribution, Import{Scalar,Vector,Matrix}PdfConfig and every ImportConfig/ExportConfig reached from them"},
		Stubs:        []string{"the medium: in-memory buffers, simulated io.Reader/io.Writer, files in a scratch directory created and removed by the simulator"},
		Caps:         map[string]int{"fault_positions_enumerated_per_artifact": 256, "elements_read_of_huge_decoded_objects": 4096},
		QuickRuns:    48000,
		ThoroughRuns: 1200000,
		MarkEveryRun: true,
	})
}

/* probes of recorded findings ---------------------------------------------------------- */

// ProbeEmptyTable: the dense table format cannot express a matrix with zero
// columns but rows (or vice versa).
func ProbeEmptyTable(c *core.Ctx) {
	m := ad.NullDenseFloat64Matrix(1, 0)
	fn := filepath.Join(scratch(), "probe.table")
	if err := m.Export(fn); err != nil {
		c.Fail("round-trip", "DenseMatrix|table|writer-error", "Export of a 1x0 matrix failed: %v", err)
	}
	r := ad.NullDenseFloat64Matrix(0, 0)
	if err := r.Import(fn); err != nil {
		c.Fail("round-trip", "DenseMatrix|table|reader-rejects-own-output", "Import of an exported 1x0 matrix failed: %v", err)
	}
	rows, cols := r.Dims()
	c.Logf("NullDenseFloat64Matrix(1,0) -> Export -> Import -> %dx%d", rows, cols)
	if rows != 1 || cols != 0 {
		c.Fail("round-trip", "DenseMatrix|table|not-equal|shape", "a 1x0 dense matrix comes back from its table file as %dx%d", rows, cols)
	}
}

