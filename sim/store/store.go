package store

import (
	"fmt"
	"os"
	"path/filepath"
	"regexp"
	"strings"

	ad "github.com/pbenner/autodiff"
	"verif/sim/core"
)

var typeNames = regexp.MustCompile(`(Float64|Float32|Int64|Int32|Int16|Int8|Real64|Real32|Int)`)

// siteClass strips the element type from a function name so that the nine
// instantiations of one template share a signature.
func siteClass(site string) string { return typeNames.ReplaceAllString(site, "T") }

type codec struct {
	name   string
	encode func(a *artifact) ([]byte, error)
	decode func(a *artifact, data []byte) (interface{}, error)
	derivs bool // the format carries derivatives
}

var jsonCodec = codec{"json", encodeJSON, decodeJSON, true}
var tableCodec = codec{"table", encodeTable, decodeTable, false}

type run struct {
	c  *core.Ctx
	a  *artifact
	cd codec
}

func (r *run) fail(oracle, failure, format string, args ...interface{}) {
	r.c.Fail(oracle, r.a.class+"|"+r.cd.name+"|"+failure, format, args...)
}

// roundTrip is the fault-free configuration: decode(encode(x)) == x.
func (r *run) roundTrip() (data []byte, ref snapshot, ok bool) {
	a, c := r.a, r.c
	withDerivs := r.cd.derivs && a.e.isReal() && !a.sparse
	var orig snapshot
	if pv, site := core.Try(func() { orig = observe(a.obj, withDerivs) }); pv != nil {
		r.fail("no-panic", "observe-original|"+core.PanicClass(pv), "reading the original %s panicked in %s: %v", a.desc, site, pv)
	}
	var err error
	if pv, site := core.Try(func() { data, err = r.cd.encode(a) }); pv != nil {
		r.fail("writer-no-panic", "panic-in:"+siteClass(site)+"|"+core.PanicClass(pv), "writing %s panicked in %s: %v", a.desc, site, pv)
	}
	if err != nil {
		r.fail("round-trip", "writer-error", "writing %s failed: %v", a.desc, err)
	}
	if r.cd.name == "table" && len(data) > 1 && data[len(data)-1] == '\n' && c.Tape.Bool(1, 4) {
		// the same table with its last line not newline-terminated (what
		// writing the string returned by Table() to a file gives)
		data = data[:len(data)-1]
		c.Count("table:last-line-without-newline")
	}
	c.Logf("encoded (%s, %d bytes): %s", r.cd.name, len(data), describeBytes(data))
	longest := 0
	for _, l := range strings.Split(string(data), "\n") {
		if len(l) > longest {
			longest = len(l)
		}
	}
	if longest > 65536 {
		c.Count("reach:" + r.cd.name + ":a-line-longer-than-65536-bytes")
	} else if longest > 4096 {
		c.Count("reach:" + r.cd.name + ":a-line-longer-than-4096-bytes")
	}
	var dec interface{}
	if pv, site := core.Try(func() { dec, err = r.cd.decode(a, data) }); pv != nil {
		r.fail("reader-no-panic", "panic-on-own-output|"+siteClass(site)+"|"+core.PanicClass(pv), "reading back the writer's own output of %s panicked in %s: %v; bytes: %s", a.desc, site, pv, describeBytes(data))
	}
	if err != nil {
		r.fail("round-trip", "reader-rejects-own-output", "the reader rejects the writer's own output of %s: %v; bytes: %s", a.desc, err, describeBytes(data))
	}
	var got snapshot
	if pv, site := core.Try(func() { got = observe(dec, withDerivs) }); pv != nil {
		r.fail("round-trip", "decoded-object-unreadable|"+core.PanicClass(pv), "the object decoded from the writer's own output of %s cannot be read (panic in %s: %v); bytes: %s", a.desc, site, pv, describeBytes(data))
	}
	signedZero := !a.sparse
	if d := orig.diff(got, signedZero, a.sparse); d != "" {
		kind := "value"
		switch {
		case strings.HasPrefix(d, "shape"):
			kind = "shape"
		case strings.Contains(d, "derivative") || strings.Contains(d, "hessian"):
			kind = "derivative"
		case strings.HasPrefix(d, "non-zero"):
			kind = "non-zero-positions"
		}
		r.fail("round-trip", "not-equal|"+kind, "%s does not survive %s: %s; bytes: %s", a.desc, r.cd.name, d, describeBytes(data))
	}
	return data, got, true
}

// coherent exercises every public read of a decoded object.
func (r *run) coherent(x interface{}, f fault) {
	a := r.a
	if pv, site := core.Try(func() {
		s := observeBounded(x)
		_ = s
		_ = fmt.Sprint(x)
		switch v := x.(type) {
		case ad.Matrix:
			_ = v.CloneMatrix()
			_ = v.Table()
		case ad.Vector:
			_ = v.CloneVector()
		case ad.Scalar:
			_ = v.CloneScalar()
		}
	}); pv != nil {
		r.fail("silent-corruption", "decoded-object-unusable|"+siteClass(site)+"|"+core.PanicClass(pv), "the reader accepted a damaged input (%s: %s) without error, but the object it returned panics when used (in %s: %v); input: %s", f.kind, f.desc, site, pv, describeBytes(f.data))
	}
	// re-encode and decode: must be stable
	tmp := &artifact{desc: a.desc, class: a.class, e: a.e, obj: x, proto: a.proto, sparse: a.sparse}
	var again []byte
	var err error
	if pv, site := core.Try(func() { again, err = r.cd.encode(tmp) }); pv != nil {
		r.fail("silent-corruption", "decoded-object-cannot-be-written|"+siteClass(site)+"|"+core.PanicClass(pv), "the reader accepted a damaged input (%s: %s) without error, but writing the object it returned panics in %s: %v; input: %s", f.kind, f.desc, site, pv, describeBytes(f.data))
	}
	if err != nil {
		return
	}
	var dec interface{}
	if pv, site := core.Try(func() { dec, err = r.cd.decode(tmp, again) }); pv != nil {
		r.fail("silent-corruption", "re-decode-panics|"+siteClass(site)+"|"+core.PanicClass(pv), "after accepting a damaged input (%s: %s) the object's own encoding cannot be read back (panic in %s: %v)", f.kind, f.desc, site, pv)
	}
	if err != nil {
		r.fail("silent-corruption", "re-decode-rejected", "the reader accepted a damaged input (%s: %s) and returned an object whose own encoding it rejects: %v; input: %s", f.kind, f.desc, err, describeBytes(f.data))
	}
	withDerivs := r.cd.derivs && a.e.isReal() && !a.sparse
	s1, s2 := observeBoundedD(x, withDerivs), observeBoundedD(dec, withDerivs)
	if d := s1.diff(s2, false, false); d != "" {
		r.fail("silent-corruption", "unstable-object", "the reader accepted a damaged input (%s: %s) and returned an object that does not survive its own round trip: %s; input: %s", f.kind, f.desc, d, describeBytes(f.data))
	}
}

func observeBounded(x interface{}) snapshot { return observeBoundedD(x, false) }

// observeBoundedD is observe with a cap on the number of elements read (a
// damaged header may declare a huge sparse object).
func observeBoundedD(x interface{}, withDerivs bool) snapshot {
	const limit = 4096
	switch v := x.(type) {
	case ad.ConstMatrix:
		r, c := v.Dims()
		if r < 0 || c < 0 {
			panic(fmt.Sprintf("negative dimensions %dx%d", r, c))
		}
		if r*c <= limit {
			return observe(x, withDerivs)
		}
		s := snapshot{rows: r, cols: c}
		for k := 0; k < limit; k++ {
			p := (k * 7919) % (r * c)
			s.cells = append(s.cells, readCell(v.ConstAt(p/c, p%c), withDerivs))
		}
		_ = v.ConstAt(r-1, c-1)
		n := 0
		for it := v.ConstIterator(); it.Ok() && n < limit; it.Next() {
			i, j := it.Index()
			_ = v.ConstAt(i, j)
			n++
		}
		return s
	case ad.ConstVector:
		n := v.Dim()
		if n < 0 {
			panic(fmt.Sprintf("negative dimension %d", n))
		}
		if n <= limit {
			return observe(x, withDerivs)
		}
		s := snapshot{rows: n, cols: -1}
		for k := 0; k < limit; k++ {
			s.cells = append(s.cells, readCell(v.ConstAt((k*7919)%n), withDerivs))
		}
		_ = v.ConstAt(n - 1)
		m := 0
		for it := v.ConstIterator(); it.Ok() && m < limit; it.Next() {
			_ = v.ConstAt(it.Index())
			m++
		}
		return s
	}
	return observe(x, withDerivs)
}

// inject delivers one damaged input to the reader and applies the relaxed
// oracle: error, or a coherent object; never a panic.
func (r *run) inject(f fault) {
	a, c := r.a, r.c
	var dec interface{}
	var err error
	pv, site := core.Try(func() {
		if f.pathFault != "" {
			fn := filepath.Join(scratch(), "nonexistent.table")
			os.Remove(fn)
			if f.pathFault == "dir" {
				fn = scratch()
			}
			dec, err = decodeTableFile(a, fn)
			return
		}
		dec, err = r.cd.decode(a, f.data)
	})
	c.Steps++
	c.Count("fault:" + f.kind)
	if pv != nil {
		r.fail("reader-no-panic", "panic-on-damaged-input|"+siteClass(site)+"|"+core.PanicClass(pv), "the reader panicked on a damaged input (%s: %s) in %s: %v; original %s; input: %s", f.kind, f.desc, site, pv, a.desc, describeBytes(f.data))
	}
	if err != nil {
		c.Count("outcome:error")
		return
	}
	if f.pathFault != "" {
		r.fail("silent-corruption", "path-fault-accepted", "the reader returned no error although %s", f.desc)
	}
	c.Count("outcome:accepted")
	r.coherent(dec, f)
}

var faultFamilies = []string{"torn", "token", "bitflip", "bytedrop", "bytedup", "zerotail", "blockdup", "splice", "line", "gzip", "path"}

func runCodec(c *core.Ctx, cd codec, faults bool) {
	t := c.Tape
	fam := []string{"scalar", "vector", "matrix", "long"}
	w := []int{4, 8, 10, 1}
	if cd.name == "table" {
		w = []int{0, 8, 10, 1}
	}
	if faults {
		w[3] = 0 // long lines in the clean configuration only: 256 damaged copies of a 100 kB file cost minutes
	}
	a := genArtifact(t, fam[t.Pick(w)], cd.name == "table" && c.Avoid["C18-F1"])
	r := &run{c: c, a: a, cd: cd}
	c.Logf("artifact: %s", a.desc)
	if !faults {
		r.roundTrip()
		c.Steps++
		c.Nontriv = true
		c.StateStr(a.desc + cd.name)
		c.Sample = map[string]interface{}{"artifact": a.desc, "codec": cd.name}
		return
	}
	// fault-injecting configuration: needs a clean reference first; a failing
	// clean round trip is the other scenario's business
	var data []byte
	if pv, _ := core.Try(func() { data, _ = cd.encode(a) }); pv != nil || data == nil {
		c.Count("skipped:clean-encode-failed")
		return
	}
	families := faultFamilies
	if cd.name == "json" {
		families = faultFamilies[:9] // no gzip / path faults on byte slices
	}
	family := families[t.Choose(len(families))]
	fs, exhaustive := enumerate(family, data, 256)
	c.Logf("fault family %s: %d damaged inputs (all positions: %v) of %d bytes: %s", family, len(fs), exhaustive, len(data), describeBytes(data))
	for _, f := range fs {
		r.inject(f)
	}
	if exhaustive {
		c.Count("fault-positions-enumerated-completely")
	} else {
		c.Count("fault-positions-subsampled")
	}
	c.Nontriv = len(fs) > 0
	c.StateStr(a.desc + cd.name + family)
	c.Sample = map[string]interface{}{"artifact": a.desc, "codec": cd.name, "fault_family": family, "damaged_inputs": len(fs), "bytes": len(data)}
}
