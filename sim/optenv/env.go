package optenv

import (
	"errors"
	"fmt"
	"math"

	ad "github.com/pbenner/autodiff"
	"github.com/pbenner/autodiff/algorithm/adam"
	"github.com/pbenner/autodiff/algorithm/bfgs"
	"github.com/pbenner/autodiff/algorithm/gradientDescent"
	"github.com/pbenner/autodiff/algorithm/lineSearch"
	"github.com/pbenner/autodiff/algorithm/newton"
	"github.com/pbenner/autodiff/algorithm/rprop"
	"verif/sim/core"
	"verif/sim/ticks"
)

var errInjected = errors.New("injected evaluation failure")

type env struct {
	c   *core.Ctx
	fam family
	sys *system
	// faults: evaluation index -> kind
	faults    map[int]string
	evals     int
	lastFault int
	// hook
	hookStopAt  int // stop at this hook call (1-based), 0 = never
	hookCalls   int
	hookStopped bool
	// constraints
	cons      int // 0 none, 1 box around x0, 2 half space through a point between x0 and the optimum
	consNorm  []float64
	consOff   float64
	consBox   float64
	x0        []float64
	consEvals int
	// for hook honesty: what the environment returned at the most recent
	// evaluation of each point (after fault injection)
	routine string
	seen    map[string]evalRec
	nanHit  bool
}

type evalRec struct {
	f float64
	g []float64
}

func key(x []float64) string { return fmt.Sprint(x) }

func floats(x ad.ConstVector) []float64 {
	v := make([]float64, x.Dim())
	for i := range v {
		v[i] = x.ConstAt(i).GetFloat64()
	}
	return v
}

// result builds the AD scalar the optimizer expects: value f, and derivatives
// with respect to whatever variables x carries, by the chain rule on the
// derivative seeds stored in x (closed form g, h with respect to x).
func result(x ad.ConstVector, f float64, g []float64, h [][]float64) *ad.Real64 {
	r := ad.NewReal64(f)
	n := x.Dim()
	if n == 0 {
		return r
	}
	order, nv := 0, 0
	for i := 0; i < n; i++ {
		if o := x.ConstAt(i).GetOrder(); o > order {
			order = o
		}
		if k := x.ConstAt(i).GetN(); k > nv {
			nv = k
		}
	}
	if order == 0 || nv == 0 {
		return r
	}
	r.Alloc(nv, order)
	dx := func(i, k int) float64 {
		s := x.ConstAt(i)
		if s.GetOrder() >= 1 && k < s.GetN() {
			return s.GetDerivative(k)
		}
		return 0
	}
	for k := 0; k < nv; k++ {
		d := 0.0
		for i := 0; i < n; i++ {
			d += g[i] * dx(i, k)
		}
		r.SetDerivative(k, d)
	}
	if order >= 2 {
		for k := 0; k < nv; k++ {
			for l := 0; l < nv; l++ {
				s := 0.0
				for i := 0; i < n; i++ {
					for j := 0; j < n; j++ {
						s += h[i][j] * dx(i, k) * dx(j, l)
					}
					xi := x.ConstAt(i)
					if xi.GetOrder() >= 2 && k < xi.GetN() && l < xi.GetN() {
						s += g[i] * xi.GetHessian(k, l)
					}
				}
				r.SetHessian(k, l, s)
			}
		}
	}
	return r
}

func (e *env) objective(x ad.ConstVector) (ad.MagicScalar, error) {
	k := e.evals
	e.evals++
	e.c.Steps++
	xv := floats(x)
	f, g, h := e.fam.eval(xv)
	fault := e.faults[k]
	if fault != "" {
		e.lastFault = k
		e.c.Count("fault:evaluation-" + fault)
		e.c.Logf("eval#%d x=%v -> FAULT %s", k, xv, fault)
	} else if e.c.Keep && k < 60 {
		e.c.Logf("eval#%d x=%v -> f=%g g=%v", k, xv, f, g)
	}
	switch fault {
	case "error":
		return nil, errInjected
	case "nan-value":
		f = math.NaN()
		e.nanHit = true
	case "nan-gradient":
		g = append([]float64(nil), g...)
		for i := range g {
			g[i] = math.NaN()
		}
		e.nanHit = true
	}
	if e.seen == nil {
		e.seen = map[string]evalRec{}
	}
	e.seen[key(xv)] = evalRec{f, g}
	return result(x, f, g, h), nil
}

// gradientProbe: the point x with unit derivative seeds, so that the
// environment's objective returns the plain gradient.
func gradientProbe(x ad.DenseFloat64Vector) ad.ConstVector {
	v := ad.NewDenseReal64Vector(append([]float64(nil), x...))
	v.Variables(1)
	return v
}

func (e *env) objectiveRoot(x ad.ConstVector) (ad.MagicVector, error) {
	k := e.evals
	e.evals++
	e.c.Steps++
	xv := floats(x)
	f, j := e.sys.eval(xv)
	fault := e.faults[k]
	if fault != "" {
		e.lastFault = k
		e.c.Count("fault:evaluation-" + fault)
		e.c.Logf("eval#%d x=%v -> FAULT %s", k, xv, fault)
	} else if e.c.Keep && k < 60 {
		e.c.Logf("eval#%d x=%v -> F=%v", k, xv, f)
	}
	if fault == "error" {
		return nil, errInjected
	}
	n := e.sys.n
	y := ad.NullDenseReal64Vector(n)
	zero := make([][]float64, n)
	for i := range zero {
		zero[i] = make([]float64, n)
	}
	for i := 0; i < n; i++ {
		fi := f[i]
		gi := j[i]
		if fault == "nan-value" {
			fi = math.NaN()
			e.nanHit = true
		}
		if fault == "nan-gradient" {
			gi = make([]float64, n)
			for q := range gi {
				gi[q] = math.NaN()
			}
			e.nanHit = true
		}
		y.At(i).Set(result(x, fi, gi, zero))
	}
	return y, nil
}

func (e *env) feasible(xv []float64) bool {
	switch e.cons {
	case 1:
		for i := range xv {
			if math.Abs(xv[i]-e.x0[i]) > e.consBox {
				return false
			}
		}
	case 2:
		s := 0.0
		for i := range xv {
			s += e.consNorm[i] * xv[i]
		}
		return s <= e.consOff
	}
	return true
}

func (e *env) predicate(x ad.Vector) bool {
	e.consEvals++
	e.c.Steps++
	return e.feasible(floats(x))
}

func close9(a, b float64) bool {
	if math.IsNaN(a) || math.IsNaN(b) {
		return false
	}
	return math.Abs(a-b) <= 1e-9*(1+math.Abs(a)+math.Abs(b))
}

// hookCheck: the values passed to a hook are the function value and the
// gradient at the point passed with them.
func (e *env) hookCheck(what string, xv []float64, y float64, haveY bool, g []float64) bool {
	e.hookCalls++
	e.c.Steps++
	// the hook must be given what the objective returned at exactly this x
	// (the most recent evaluation there, injected NaN included); a point that
	// was never evaluated is compared with the closed form
	f0, g0, _ := e.fam.eval(xv)
	src := "closed form"
	if r, ok := e.seen[key(xv)]; ok {
		f0, g0, src = r.f, r.g, "value returned by the objective at this point"
	}
	same := func(a, b float64) bool { return (math.IsNaN(a) && math.IsNaN(b)) || close9(a, b) }
	// a diverged run (overflowing iterates) is not a hook matter
	for _, v := range append(append([]float64{f0}, g0...), xv...) {
		if math.IsInf(v, 0) || math.Abs(v) > 1e150 {
			if e.hookStopAt > 0 && e.hookCalls >= e.hookStopAt {
				e.hookStopped = true
				e.c.Count("fault:hook-cancellation")
				return true
			}
			return false
		}
	}
	if e.c.Keep && e.hookCalls < 40 {
		e.c.Logf("hook#%d x=%v y=%g g=%v", e.hookCalls, xv, y, g)
	}
	if haveY && !same(y, f0) {
		e.c.Fail("hook-honesty", e.routine+"|value", "%s hook call %d: passed value %g with x=%v, but f(x)=%g (%s; evaluations so far %d, last injected fault at evaluation %d)", what, e.hookCalls, y, xv, f0, src, e.evals, e.lastFault)
	}
	for i := range g0 {
		if g != nil && !same(g[i], g0[i]) {
			e.c.Fail("hook-honesty", e.routine+"|gradient", "%s hook call %d: passed gradient %v with x=%v, but the gradient there is %v (%s; evaluations so far %d, last injected fault at evaluation %d)", what, e.hookCalls, g, xv, g0, src, e.evals, e.lastFault)
		}
	}
	if e.hookStopAt > 0 && e.hookCalls >= e.hookStopAt {
		e.hookStopped = true
		e.c.Count("fault:hook-cancellation")
		return true
	}
	return false
}

func vecFloats(v ad.ConstVector) []float64 {
	if v == nil {
		return nil
	}
	return floats(v)
}

/* the run ------------------------------------------------------------------------------------- */

var routines = []string{"bfgs", "rprop", "gradientDescent", "adam", "newton.RunCrit", "newton.RunMin", "newton.RunRoot", "lineSearch"}

func Run(c *core.Ctx) {
	switch c.Scenario {
	case "saga", "saga-faults":
		RunSaga(c)
		return
	case "blahut", "blahut-faults":
		RunBlahut(c)
		return
	}
	t := c.Tape
	faulty := c.Scenario == "faults"
	e := &env{c: c, faults: map[int]string{}, lastFault: -1}
	e.routine = routines[t.Pick([]int{4, 3, 2, 2, 2, 3, 2, 5})]
	lineOnly := c.Scenario == "line-search"
	if lineOnly {
		e.routine = "lineSearch"
	}
	if e.routine == "newton.RunRoot" {
		e.sys = genSystem(t)
	} else if lineOnly && t.Bool(2, 3) {
		e.fam = genWaves(t)
	} else {
		e.fam = genFamily(t)
	}
	n := 0
	if e.sys != nil {
		n = e.sys.n
	} else {
		n = e.fam.dim()
	}
	e.x0 = make([]float64, n)
	for i := range e.x0 {
		e.x0[i] = float64(t.Range(-8, 8)) / 4
	}
	eps := []float64{1e-4, 1e-6, 1e-8}[t.Choose(3)]
	K := []int{400, 2000}[t.Choose(2)]
	if faulty {
		// faults: transient evaluation faults, cancellation, small caps
		nf := t.Range(0, 2)
		for i := 0; i < nf; i++ {
			k := t.Pick([]int{1, 2, 2, 2, 2, 2, 2, 2, 1, 1, 1, 1, 1, 1, 1, 1})
			if t.Bool(1, 4) {
				k = t.Range(0, 60)
			}
			e.faults[k] = []string{"error", "nan-value", "nan-gradient"}[t.Choose(3)]
		}
		if t.Bool(1, 3) {
			e.hookStopAt = t.Range(1, 6)
		}
		if t.Bool(1, 4) {
			K = t.Range(1, 6)
		}
	}
	// constraints: pure functions of x that hold at x0
	if e.sys == nil && e.routine != "gradientDescent" && e.routine != "lineSearch" && t.Bool(1, 3) {
		e.cons = t.Range(1, 2)
		e.consBox = float64(t.Range(1, 6)) / 4
		if e.cons == 2 {
			// half space a'x <= b whose boundary lies between x0 and the optimum
			opt := e.fam.optimum()
			e.consNorm = make([]float64, n)
			mid := 0.0
			for i := 0; i < n; i++ {
				d := 1.0
				if opt != nil {
					d = opt[i] - e.x0[i]
				}
				e.consNorm[i] = d
				mid += d * (e.x0[i] + 0.5*d)
			}
			e.consOff = mid
			if !e.feasible(e.x0) {
				e.cons = 1
			}
		}
		c.Count("fault:constraint-active")
	}
	what := ""
	if e.sys != nil {
		what = fmt.Sprintf("planted-root system n=%d root=%v", e.sys.n, e.sys.r)
	} else {
		what = e.fam.name()
	}
	c.Logf("%s on %s, x0=%v, epsilon=%g, cap=%d, faults=%v, hook stops at call %d, constraint kind %d", e.routine, what, e.x0, eps, K, e.faults, e.hookStopAt, e.cons)

	x0 := ad.NewDenseFloat64Vector(append([]float64(nil), e.x0...))
	var xr ad.Vector
	var err error
	var alphaRet float64
	var lsP []float64
	lsMax := 0.0
	var gx0 ad.DenseFloat64Vector // the starting point handed to a gradient-only entry point
	call := func() {
		switch e.routine {
		case "bfgs":
			args := []interface{}{bfgs.Epsilon{Value: eps}, bfgs.MaxIterations{Value: K},
				bfgs.Hook{Value: func(x, g ad.ConstVector, y ad.ConstScalar) bool {
					return e.hookCheck("bfgs", floats(x), y.GetFloat64(), true, floats(g))
				}}}
			if e.cons != 0 {
				args = append(args, bfgs.Constraints{Value: e.predicate})
			}
			if t.Bool(1, 3) {
				// an initial approximation of the Hessian handed in by the caller
				sc := []float64{0.5, 1, 4}[t.Choose(3)]
				h0 := ad.NullDenseFloat64Matrix(n, n)
				for i := 0; i < n; i++ {
					h0.At(i, i).SetFloat64(sc * float64(i+1))
				}
				args = append(args, bfgs.Hessian{Value: h0})
			}
			xr, err = bfgs.Run(e.objective, x0, args...)
		case "rprop":
			args := []interface{}{rprop.Epsilon{Value: eps}, rprop.MaxIterations{Value: K},
				rprop.Hook{Value: func(g, step []float64, x ad.ConstVector, y ad.ConstScalar) bool {
					return e.hookCheck("rprop", floats(x), y.GetFloat64(), true, g)
				}}}
			if e.cons != 0 {
				args = append(args, rprop.Constraints{Value: e.predicate})
			}
			eta := [][]float64{{1.2, 0.5}, {1.1, 0.8}, {1.5, 0.3}}[t.Choose(3)]
			step0 := []float64{0.01, 0.1, 1}[t.Choose(3)]
			if t.Bool(1, 3) {
				// the gradient-only entry point (dense float64 fast path): the
				// environment hands out the closed-form gradient directly
				e.routine = "rprop.RunGradient"
				gargs := []interface{}{rprop.Epsilon{Value: eps}, rprop.MaxIterations{Value: K},
					rprop.Hook{Value: func(g, step []float64, x ad.ConstVector, y ad.ConstScalar) bool {
						e.hookCalls++
						e.c.Steps++
						if e.hookStopAt > 0 && e.hookCalls >= e.hookStopAt {
							e.hookStopped = true
							e.c.Count("fault:hook-cancellation")
							return true
						}
						return false
					}}}
				if e.cons != 0 {
					gargs = append(gargs, rprop.ConstConstraints{Value: func(x ad.ConstVector) bool {
						e.consEvals++
						return e.feasible(floats(x))
					}})
				}
				gf := rprop.DenseGradientF(func(x, grad ad.DenseFloat64Vector) error {
					r, err := e.objective(gradientProbe(x))
					if err != nil {
						return err
					}
					for i := range grad {
						grad[i] = r.GetDerivative(i)
					}
					return nil
				})
				var xc ad.ConstVector
				gx0 = ad.NewDenseFloat64Vector(append([]float64(nil), e.x0...))
				xc, err = rprop.RunGradient(gf, gx0, step0, eta, gargs...)
				if xc != nil {
					xr = ad.NewDenseFloat64Vector(floats(xc))
				}
				break
			}
			xr, err = rprop.Run(e.objective, x0, step0, eta, args...)
		case "gradientDescent":
			// the API has no iteration cap: the hook is the cap
			step := 0.5 / lipschitz(e.fam, e.x0)
			calls := 0
			xr, err = gradientDescent.Run(e.objective, x0, step, gradientDescent.Epsilon{Value: eps},
				gradientDescent.Hook{Value: func(g []float64, x ad.ConstVector, y ad.ConstScalar) bool {
					calls++
					if e.hookCheck("gradientDescent", floats(x), y.GetFloat64(), true, g) {
						return true
					}
					if calls > 20*K {
						e.hookStopped = true
						return true
					}
					return false
				}})
		case "adam":
			args := []interface{}{adam.Epsilon{Value: eps}, adam.MaxIterations{Value: K}, adam.StepSize{Value: []float64{0.001, 0.01, 0.1}[t.Choose(3)]},
				adam.Hook{Value: func(x, g ad.ConstVector, y ad.ConstScalar) bool {
					return e.hookCheck("adam", floats(x), y.GetFloat64(), true, floats(g))
				}}}
			if e.cons != 0 {
				args = append(args, adam.Constraints{Value: e.predicate})
			}
			if t.Bool(1, 3) {
				// the gradient-only entry point (dense float64 fast path, default
				// step size: the entry point takes no StepSize option); its hook
				// receives no function value
				e.routine = "adam.RunGradient"
				gargs := []interface{}{adam.Epsilon{Value: eps}, adam.MaxIterations{Value: K},
					adam.Hook{Value: func(x, g ad.ConstVector, y ad.ConstScalar) bool {
						return e.hookCheck("adam.RunGradient", floats(x), 0, false, floats(g))
					}}}
				if e.cons != 0 {
					gargs = append(gargs, adam.ConstConstraints{Value: func(x ad.ConstVector) bool {
						e.consEvals++
						return e.feasible(floats(x))
					}})
				}
				gf := adam.DenseGradientF(func(x, grad ad.DenseFloat64Vector) error {
					r, err := e.objective(gradientProbe(x))
					if err != nil {
						return err
					}
					for i := range grad {
						grad[i] = r.GetDerivative(i)
					}
					return nil
				})
				var xc ad.ConstVector
				gx0 = ad.NewDenseFloat64Vector(append([]float64(nil), e.x0...))
				xc, err = adam.RunGradient(gf, gx0, gargs...)
				if xc != nil {
					xr = ad.NewDenseFloat64Vector(floats(xc))
				}
				break
			}
			xr, err = adam.Run(e.objective, x0, args...)
		case "newton.RunCrit":
			args := []interface{}{newton.Epsilon{Value: eps}, newton.MaxIterations{Value: K},
				newton.HookCrit{Value: func(x ad.ConstVector, h ad.ConstMatrix, g ad.ConstVector) bool {
					if c.Keep && e.hookCalls < 3 {
						c.Logf("hook H=%v", h)
					}
					return e.hookCheck("newton.RunCrit", floats(x), 0, false, floats(g))
				}}}
			if e.cons != 0 {
				args = append(args, newton.Constraints{Value: e.predicate})
			}
			xr, err = newton.RunCrit(e.objective, x0, args...)
		case "newton.RunMin":
			args := []interface{}{newton.Epsilon{Value: eps}, newton.MaxIterations{Value: K},
				newton.HookMin{Value: func(x, g ad.ConstVector, h ad.ConstMatrix, y ad.ConstScalar) bool {
					return e.hookCheck("newton.RunMin", floats(x), y.GetFloat64(), y != nil, floats(g))
				}},
				newton.HessianModification{Value: []string{"None", "LDL", "Eigenvalue"}[t.Choose(3)]}}
			if e.cons != 0 && !c.Avoid["C07-F1"] {
				args = append(args, newton.Constraints{Value: e.predicate})
			} else {
				e.cons = 0
			}
			xr, err = newton.RunMin(e.objective, x0, args...)
		case "newton.RunRoot":
			args := []interface{}{newton.Epsilon{Value: eps}, newton.MaxIterations{Value: K},
				newton.HookRoot{Value: func(x ad.ConstVector, j ad.ConstMatrix, y ad.ConstVector) bool {
					e.hookCalls++
					f0, _ := e.sys.eval(floats(x))
					yv := floats(y)
					// a diverged run (overflowing iterates) is not a hook matter
					diverged := false
					for _, v := range append(append([]float64{}, f0...), floats(x)...) {
						if math.IsInf(v, 0) || math.IsNaN(v) || math.Abs(v) > 1e150 {
							diverged = true
						}
					}
					for i := range f0 {
						if !diverged && !close9(yv[i], f0[i]) && !(e.nanHit && math.IsNaN(yv[i])) {
							c.Fail("hook-honesty", "newton.RunRoot|value", "hook call %d: passed F=%v with x=%v, but F(x)=%v", e.hookCalls, yv, floats(x), f0)
						}
					}
					if e.hookStopAt > 0 && e.hookCalls >= e.hookStopAt {
						e.hookStopped = true
						c.Count("fault:hook-cancellation")
						return true
					}
					return false
				}}}
			xr, err = newton.RunRoot(e.objectiveRoot, x0, args...)
		case "lineSearch":
			_, g0, _ := e.fam.eval(e.x0)
			// a descent direction: steepest descent, randomly scaled and
			// perturbed (kept a descent direction)
			lsP = make([]float64, n)
			scale := []float64{1, 0.3, 0.1, 0.03, 0.01}[t.Choose(5)]
			dot := 0.0
			for i := range lsP {
				lsP[i] = -g0[i] * (1 + float64(t.Range(-3, 3))/4)
				dot += lsP[i] * g0[i]
			}
			if dot >= 0 {
				for i := range lsP {
					lsP[i] = -g0[i]
				}
			}
			for i := range lsP {
				lsP[i] *= scale
			}
			phi := func(alpha ad.ConstScalar) (ad.MagicScalar, error) {
				x := ad.NullDenseReal64Vector(n)
				for i := 0; i < n; i++ {
					s := ad.NewReal64(0)
					s.Mul(alpha, ad.ConstFloat64(lsP[i]))
					s.Add(s, ad.ConstFloat64(e.x0[i]))
					x.At(i).Set(s)
				}
				return e.objective(x)
			}
			var a ad.Scalar
			alpha1 := []float64{1, 0.1, 10}[t.Choose(3)]
			if lineOnly {
				// first trial steps that make the bracketing phase expand and overshoot
				alpha1 = []float64{0.01, 0.05, 0.2, 0.5, 1, 1.7, 3, 10}[t.Choose(8)]
			}
			lsArgs := []interface{}{}
			if t.Bool(1, 3) {
				// a constraint on the step: alpha <= lsMax (holds at 0)
				lsMax = []float64{0.05, 0.3, 0.75, 1.5, 3, 12}[t.Choose(6)]
				c.Logf("line search constraint: alpha <= %g", lsMax)
				lsArgs = append(lsArgs, lineSearch.Constraints{Value: func(alpha ad.ConstScalar) bool {
					e.consEvals++
					return alpha.GetFloat64() <= lsMax
				}})
			}
			a, err = lineSearch.Run(phi, ad.Float64Type, append(lsArgs, lineSearch.Parameters{Alpha1: alpha1, MaxEval: K},
				lineSearch.Hook{Value: func(alpha, y, g ad.ConstScalar) bool {
					e.hookCalls++
					if e.hookStopAt > 0 && e.hookCalls >= e.hookStopAt {
						e.hookStopped = true
						c.Count("fault:hook-cancellation")
						return true
					}
					return false
				}})...)
			if a != nil {
				alphaRet = a.GetFloat64()
			}
		}
	}
	var pv interface{}
	var site string
	over, counts := ticks.Guard(nil, 2000000, func() { pv, site = core.Try(call) })
	if over != nil {
		// termination is C20's business; here it only ends the run
		c.Count("aborted-by-step-clock")
		return
	}
	iters := 0
	for s, v := range counts {
		if len(s) > 5 && s[len(s)-5:] == ".iter" {
			iters += v
		}
	}
	if e.routine == "lineSearch" {
		iters = e.evals
	}
	outcome := "returned"
	switch {
	case pv != nil:
		outcome = "panic"
		c.Logf("panicked in %s: %v", site, pv)
	case err != nil:
		outcome = "error"
		c.Logf("returned error: %v", err)
	case e.hookStopped:
		outcome = "hook-stop"
	case iters >= K:
		outcome = "cap"
	}
	c.Count("outcome:" + outcome)
	c.Logf("outcome %s after %d evaluations, %d iterations, %d hook calls", outcome, e.evals, iters, e.hookCalls)
	// caller state: the starting point is never moved
	for i := range e.x0 {
		if x0.Float64At(i) != e.x0[i] {
			c.Fail("x0-unchanged", e.routine+"|x0-moved", "%s moved the starting point it was given: %v -> %v", e.routine, e.x0, floats(x0))
		}
	}
	for i := range gx0 {
		if gx0[i] != e.x0[i] {
			c.Fail("x0-unchanged", e.routine+"|x0-moved", "%s moved the starting point it was given: %v -> %v", e.routine, e.x0, []float64(gx0))
		}
	}
	c.Nontriv = e.evals >= 3
	fk := "none"
	if len(e.faults) > 0 {
		fk = fmt.Sprint(len(e.faults))
	}
	c.StateStr(fmt.Sprintf("%s|%s|%d|%s|%d|%v|%d", e.routine, outcome, n, fk, e.cons, e.hookStopAt > 0, len(what)%7))
	c.Sample = map[string]interface{}{"routine": e.routine, "objective": what, "x0": e.x0, "epsilon": eps, "cap": K, "faults": fmt.Sprint(e.faults), "outcome": outcome, "evaluations": e.evals, "iterations": iters}
	if pv != nil || err != nil {
		// a failed evaluation may abort the run; nothing more is demanded
		return
	}
	if e.routine == "lineSearch" {
		if lsMax > 0 {
			// an infeasible step is never returned without an error -- whatever
			// ended the search (also its evaluation budget)
			if outcome != "hook-stop" && !(alphaRet <= lsMax) {
				c.Fail("constraints", "lineSearch|infeasible-step-returned", "line search returned alpha=%g without error (%s after %d evaluations) although the constraint alpha <= %g is false there", alphaRet, outcome, e.evals, lsMax)
			}
			// the Wolfe conditions may not be attainable inside the feasible set
			c.Count("not-judged:strong-wolfe-under-a-step-constraint")
			return
		}
		if outcome == "returned" && !e.nanHit {
			e.checkWolfe(alphaRet, lsP)
		}
		return
	}
	xv := vecFloats(xr)
	if xv == nil {
		c.Fail("result", e.routine+"|nil-result", "%s returned no error and no point", e.routine)
	}
	// constraints: an infeasible point is never returned without an error
	finite := true
	for _, v := range xv {
		if math.IsNaN(v) || math.IsInf(v, 0) {
			finite = false
		}
	}
	if e.nanHit && !finite {
		// the objective itself returned NaN (outside the families the
		// property quantifies over) and the routine propagated it
		c.Count("not-judged:nan-returned-by-objective")
		return
	}
	if e.cons != 0 && !e.feasible(xv) {
		c.Fail("constraints", e.routine+"|infeasible-point-returned", "%s returned %v without error although the constraint predicate (kind %d) is false there; x0=%v was feasible; %d constraint evaluations", e.routine, xv, e.cons, e.x0, e.consEvals)
	}
	if outcome != "returned" {
		return
	}
	if e.nanHit {
		// an objective that returned NaN is outside the families the
		// stopping-condition clause quantifies over; only the hook,
		// constraint and x0 oracles apply to such a run
		c.Count("not-judged:nan-returned-by-objective")
		return
	}
	slack := func(eps float64) float64 { return eps*(1+1e-6) + 1e-12 }
	if e.sys != nil {
		f, _ := e.sys.eval(xv)
		if r := norm2(f); !(r < slack(eps)) {
			c.Fail("stopping-condition", e.routine+"|residual-not-below-epsilon", "newton.RunRoot returned %v without error, hook stop or cap (%d of %d iterations), but |F(x)| = %g >= epsilon = %g", xv, iters, K, r, eps)
		}
		return
	}
	_, g, _ := e.fam.eval(xv)
	gn := norm2(g)
	if !(gn < slack(eps)) {
		c.Fail("stopping-condition", e.routine+"|gradient-not-below-epsilon", "%s returned %v without error, hook stop or cap (%d of %d iterations, %d evaluations, last injected fault at evaluation %d), but |grad f(x)| = %g >= epsilon = %g", e.routine, xv, iters, K, e.evals, e.lastFault, gn, eps)
	}
	if lm := e.fam.lambdaMin(); lm > 0 {
		opt := e.fam.optimum()
		d := 0.0
		for i := range opt {
			d += (xv[i] - opt[i]) * (xv[i] - opt[i])
		}
		if d = math.Sqrt(d); d > eps/lm*(1+1e-6)+1e-12 {
			c.Fail("quadratic-minimiser", e.routine+"|too-far-from-minimiser", "%s returned %v on a strictly convex quadratic with minimiser %v: distance %g > epsilon/lambda_min = %g", e.routine, xv, opt, d, eps/lm)
		}
	}
}

// checkWolfe: strong Wolfe conditions with c1 = 1e-4, c2 = 0.9.
func (e *env) checkWolfe(alpha float64, p []float64) {
	n := len(p)
	phi := func(a float64) (float64, float64) {
		x := make([]float64, n)
		for i := range x {
			x[i] = e.x0[i] + a*p[i]
		}
		f, g, _ := e.fam.eval(x)
		d := 0.0
		for i := range g {
			d += g[i] * p[i]
		}
		return f, d
	}
	f0, d0 := phi(0)
	if d0 == 0 {
		return
	}
	fa, da := phi(alpha)
	tol := 1e-9 * (1 + math.Abs(f0))
	if !(alpha > 0) {
		e.c.Fail("strong-wolfe", "lineSearch|non-positive-step", "line search returned alpha=%g without error", alpha)
	}
	if fa > f0+1e-4*alpha*d0+tol {
		e.c.Fail("strong-wolfe", "lineSearch|sufficient-decrease", "line search returned alpha=%g: phi(alpha)=%g > phi(0)+c1*alpha*phi'(0)=%g (phi(0)=%g, phi'(0)=%g, %d evaluations)", alpha, fa, f0+1e-4*alpha*d0, f0, d0, e.evals)
	}
	if math.Abs(da) > 0.9*math.Abs(d0)*(1+1e-9)+1e-12 {
		e.c.Fail("strong-wolfe", "lineSearch|curvature", "line search returned alpha=%g: |phi'(alpha)|=%g > c2*|phi'(0)|=%g (%d evaluations)", alpha, math.Abs(da), 0.9*math.Abs(d0), e.evals)
	}
}

// lipschitz: an upper bound of the gradient's Lipschitz constant near x0 (for
// a safe gradient descent step).
func lipschitz(f family, x0 []float64) float64 {
	l := 1.0
	probe := func(x []float64) {
		_, _, h := f.eval(x)
		for i := range h {
			s := 0.0
			for j := range h[i] {
				s += math.Abs(h[i][j])
			}
			if s > l {
				l = s
			}
		}
	}
	probe(x0)
	if o := f.optimum(); o != nil {
		probe(o)
		for k := 1; k < 4; k++ {
			x := make([]float64, len(x0))
			for i := range x {
				x[i] = x0[i] + float64(k)/4*(o[i]-x0[i])
			}
			probe(x)
		}
	}
	return l
}

func init() {
	core.Register(&core.Property{
		ID:     "C07",
		Level:  "exploration",
		Engine: "C: optimizer-in-an-environment simulator",
		Scenarios: []core.Scenario{
			{Name: "clean", Weight: 4},
			{Name: "faults", Weight: 4, Faulty: true},
			{Name: "line-search", Weight: 2},
			{Name: "saga", Weight: 1},
			{Name: "saga-faults", Weight: 1, Faulty: true},
			{Name: "blahut", Weight: 1},
			{Name: "blahut-faults", Weight: 1, Faulty: true},
		},
		Run:      Run,
		Probes: []core.FindingProbe{
			// newton.RunMin with constraints: a recorded minimal run (choice list)
			{ID: "C07-F1", Run: func(c *core.Ctx) {
				c.Tape = core.NewReplayTape([]int{13, 12, 0, 0, 4, 9, 0, 0, 0, 1, 0, 0, 0, 0, 2, 1})
				c.Scenario = "faults"
				Run(c)
			}},
		},
		StepUnit: "callbacks into the environment (objective evaluations, constraint evaluations, hook calls)",
		Rule: "scenarios clean / faults: one run = one routine (BFGS, Rprop and rprop.RunGradient, gradient descent, Adam and adam.RunGradient, Newton crit / min / root, line search) on one objective drawn from families with closed-form value, gradient, Hessian and optimum (SPD quadratics n=1..4 with condition number <= 100 built from drawn eigenvalues and rotations, Rosenbrock type, separable quartic, L2-regularised logistic loss, polynomial systems with planted roots), drawn start, epsilon, step sizes, eta, Hessian modification, optional constraint predicate (box / half space that holds at x0). The environment is the objective (derivatives handed back by the chain rule on the seeds stored in x), the constraint and the hook; in the fault scenario it injects up to two transient evaluation faults (error, NaN value, NaN gradient, biased to the first evaluations, i.e. inside the first line searches), a hook cancellation and small caps. Oracles over the recorded history: stopping condition re-evaluated in closed form at the returned point, distance to the minimiser on quadratics, constraint predicate at the returned point, hook arguments vs closed form at the hook's x, strong Wolfe conditions, x0 unchanged. Scenario line-search: the line search alone on rays through a family whose slope grows, shrinks and changes sign (sum of cosines plus a small quadratic; also the other non-convex families), first trial steps from 0.01 to 10, optional step constraint. Scenarios saga / saga-faults: saga.Run with the four objective types (Objective1Dense, Objective2Dense, Objective1Sparse, Objective2Sparse) and WrapperDense (components written with the library's scalars, gradient by automatic differentiation) on sum-of-squares problems, regularisation none (an identity proximal operator owned by the environment) / Tikhonov / l1 / l2 norm / l1 by just-in-time updates (JitUpdateL1, also with lambda = 0, i.e. plain SAGA with lazily applied steps, judged against the analytic minimiser), drawn step size 1/(3..6 L), epsilon, cap and Seed (SAGA's own sampling is seeded from the tape); faults: an evaluation that returns an error or NaN at a drawn call, hook cancellation, small caps; oracles: stated step criterion re-evaluated between the last published iterate and the returned point, distance to the analytic minimiser, hook arguments (relative step, lambda, epoch), an objective error is returned and never swallowed, no NaN point with err == nil. Scenarios blahut / blahut-faults: blahut.Run / RunNaive on drawn channels (2..4 inputs and outputs, zero entries for Run), drawn full-support start and step count, optional hook cancellation. Non-trivial = at least 3 evaluations. Distinct = (routine, exit reason, dimension, fault pattern, constraint kind, hook, family).",
		Assumptions: []string{
			"a run that ends with an error, a panic, a hook stop or at its iteration cap is not judged by the stopping-condition oracle",
			"slack on epsilon: 1e-6 relative + 1e-12; hook arguments compared to 1e-9 relative",
			"SAGA: the minimiser is judged on strictly convex least-squares problems (no or Tikhonov regularisation) with at least d+8 components and no zero data row, after at least four epochs, with the tolerance 1e6 * (largest of the last five relative steps) * |x| / (n*gamma*mu) (SAGA's stale-gradient table makes the distance lag behind the step; the factor is three decades above the largest ratio seen in 1e6 calibration runs); the l1- and l2-norm-regularised problems are not quadratics and only their stopping rule, hook and error reporting are judged",
			"Blahut-Arimoto has no stopping rule (it performs the steps it is given): judged are Arimoto's bound C - I(p_k) <= max_i ln(1/p0_i)/k against a reference capacity computed by the environment, the hook's J against the lower bound recomputed from the previous iterate, monotonicity of J, J <= C, iterates being distributions, number of steps performed; RunNaive only on strictly positive channels (it does not implement 0 log 0 = 0)",
			"termination is not judged here (C20); a run aborted by the step clock is counted",
		},
		RealCode:     []string{"algorithm/bfgs, rprop, gradientDescent, adam, newton, lineSearch (and what they call: matrixInverse, cholesky, qrAlgorithm), algorithm/saga (dense, sparse and just-in-time variants, WrapperDense, proximal operators, EvalStopping), algorithm/blahut (Run, RunNaive)"},
		Stubs:        []string{"objective, constraint predicate, hook (the environment)"},
		Caps:         map[string]int{"dimension": 4, "iteration_cap": 2000, "faults_per_run": 2},
		QuickRuns:    180000,
		ThoroughRuns: 3000000,
		MarkEveryRun: true,
	})
}
