package optenv

import (
	"errors"
	"fmt"
	"math"

	ad "github.com/pbenner/autodiff"
	"github.com/pbenner/autodiff/algorithm/saga"
	"verif/sim/core"
)

/* SAGA in an environment ------------------------------------------------------------------
 *
 * The environment owns the component objectives f_i, the proximal operator and
 * the hook.  Objective: (1/n) sum_i 1/2 (a_i'x - b_i)^2 + h(x), strictly convex
 * because the first d rows of A are s*I.  h is 0 (an identity proximal
 * operator owned by the environment -- the public ProximalOperator seam, which
 * is also what makes the hook usable), Tikhonov lambda/(2n) |x|^2 (closed-form
 * minimiser) or lambda/n |x|_1 (KKT conditions).  SAGA draws its sample order
 * from math/rand seeded by the Seed option, which the tape decides: one tape,
 * one execution.
 */

var errSagaInjected = errors.New("injected evaluation failure")

type identityProx struct{ lambda float64 }

func (p *identityProx) GetLambda() float64  { return p.lambda }
func (p *identityProx) SetLambda(l float64) { p.lambda = l }
func (p *identityProx) Eval(x, w ad.DenseFloat64Vector) {
	copy(x, w)
}

// solve (M) x = r by Gaussian elimination with partial pivoting (d <= 3)
func solveSmall(m [][]float64, r []float64) []float64 {
	d := len(r)
	a := make([][]float64, d)
	for i := range a {
		a[i] = append(append([]float64{}, m[i]...), r[i])
	}
	for c := 0; c < d; c++ {
		p := c
		for i := c + 1; i < d; i++ {
			if math.Abs(a[i][c]) > math.Abs(a[p][c]) {
				p = i
			}
		}
		a[c], a[p] = a[p], a[c]
		for i := c + 1; i < d; i++ {
			f := a[i][c] / a[c][c]
			for j := c; j <= d; j++ {
				a[i][j] -= f * a[c][j]
			}
		}
	}
	x := make([]float64, d)
	for i := d - 1; i >= 0; i-- {
		s := a[i][d]
		for j := i + 1; j < d; j++ {
			s -= a[i][j] * x[j]
		}
		x[i] = s / a[i][i]
	}
	return x
}

func RunSaga(c *core.Ctx) {
	t := c.Tape
	faulty := c.Scenario == "saga-faults"
	d := t.Range(1, 3)
	n := d + t.Range(0, 5)
	// SAGA's stopping rule looks at the net movement over one epoch of n random
	// draws; with a handful of components, or components with a zero data row,
	// an epoch can stand still by the luck of the draw far from the minimiser.
	// The minimiser is therefore judged on "regular" problems only: at least
	// d+8 components, no zero row.
	regular := t.Bool(1, 2)
	if regular {
		n = d + t.Range(8, 20)
	}
	s := float64(t.Range(1, 2))
	A := make([][]float64, n)
	b := make([]float64, n)
	for i := range A {
		A[i] = make([]float64, d)
		if i < d {
			A[i][i] = s
		} else {
			zero := true
			for j := range A[i] {
				A[i][j] = float64(t.Range(-2, 2))
				zero = zero && A[i][j] == 0
			}
			if zero && regular {
				A[i][t.Choose(d)] = 1
			}
		}
		b[i] = float64(t.Range(-8, 8)) / 2
	}
	L := 0.0
	for i := range A {
		q := 0.0
		for _, v := range A[i] {
			q += v * v
		}
		L = math.Max(L, q)
	}
	kind := t.Choose(5)
	// identity, tikhonov, l1, l2 (norm, not squared), l1 by just-in-time updates
	reg := t.Pick([]int{3, 3, 2, 1, 1})
	if reg == 4 {
		// JitUpdate is implemented for Objective1Sparse only
		kind = 2
	}
	lambda := 0.0
	if reg != 0 {
		lambda = float64(t.Range(1, 8)) / 4
	}
	if reg == 4 && t.Bool(1, 3) {
		// just-in-time updates with lambda = 0 are plain SAGA with lazily applied
		// gradient-average steps: the problem is the strictly convex quadratic
		lambda = 0
	}
	quadratic := reg <= 1 || (reg == 4 && lambda == 0)
	gamma := 1 / (float64(t.Range(3, 6)) * L)
	eps := []float64{1e-8, 1e-10, 1e-12}[t.Choose(3)]
	maxIt := []int{20000, 4000}[t.Choose(2)]
	seed := int64(t.Range(0, 1<<20))
	x0 := make([]float64, d)
	for i := range x0 {
		x0[i] = float64(t.Range(-8, 8)) / 4
	}
	failAt, failKind, hookStopAt := -1, "", 0
	if faulty {
		if t.Bool(2, 3) {
			failAt = t.Pick([]int{3, 3, 2, 1, 1, 1, 1, 1, 1, 1, 1, 1})
			if t.Bool(1, 3) {
				failAt = n + t.Range(0, 40)
			}
			failKind = []string{"error", "nan"}[t.Choose(2)]
		}
		if t.Bool(1, 3) {
			hookStopAt = t.Range(1, 5)
		}
		if t.Bool(1, 4) {
			maxIt = t.Range(1, 4)
		}
	}
	kindName := []string{"Objective1Dense", "Objective2Dense", "Objective1Sparse", "Objective2Sparse", "WrapperDense"}[kind]
	regName := []string{"none(identity proximal operator)", "tikhonov", "l1", "l2-norm", "l1(JitUpdateL1)"}[reg]
	what := "saga." + kindName
	c.Logf("%s reg=%s lambda=%v d=%d n=%d gamma=%.6g epsilon=%g cap=%d seed=%d x0=%v fail=%s@%d hookStop=%d", what, regName, lambda, d, n, gamma, eps, maxIt, seed, x0, failKind, failAt, hookStopAt)
	for i := range A {
		c.Logf("  a_%d=%v b_%d=%v", i, A[i], i, b[i])
	}
	// data rows in the representations the objective hands out by reference
	denseRows := make([]ad.DenseFloat64Vector, n)
	sparseRows := make([]ad.SparseConstFloat64Vector, n)
	for i := range A {
		denseRows[i] = ad.NewDenseFloat64Vector(append([]float64{}, A[i]...))
		idx, val := []int{}, []float64{}
		for j, v := range A[i] {
			if v != 0 {
				idx = append(idx, j)
				val = append(val, v)
			}
		}
		sparseRows[i] = ad.NewSparseConstFloat64Vector(idx, val, d)
	}
	evals, faultHit, faultRow := 0, false, -1
	resid := func(i int, x ad.DenseFloat64Vector) (float64, error) {
		k := evals
		evals++
		c.Steps++
		r := -b[i]
		for j := 0; j < d; j++ {
			r += A[i][j] * x[j]
		}
		if k == failAt {
			faultHit = true
			faultRow = i
			c.Count("fault:" + failKind)
			if failKind == "error" {
				return 0, errSagaInjected
			}
			return math.NaN(), nil
		}
		return r, nil
	}
	var f interface{}
	switch kind {
	case 0:
		f = saga.Objective1Dense(func(i int, x ad.DenseFloat64Vector) (float64, float64, ad.DenseFloat64Vector, error) {
			r, err := resid(i, x)
			return 0.5 * r * r, r, denseRows[i], err
		})
	case 1:
		f = saga.Objective2Dense(func(i int, x ad.DenseFloat64Vector) (float64, ad.DenseFloat64Vector, error) {
			r, err := resid(i, x)
			g := make([]float64, d)
			for j := range g {
				g[j] = r * A[i][j]
			}
			return 0.5 * r * r, ad.NewDenseFloat64Vector(g), err
		})
	case 2:
		f = saga.Objective1Sparse(func(i int, x ad.DenseFloat64Vector) (float64, float64, ad.SparseConstFloat64Vector, error) {
			r, err := resid(i, x)
			return 0.5 * r * r, r, sparseRows[i], err
		})
	case 4:
		// the component objectives written with the library's scalars; the
		// wrapper obtains value and gradient by automatic differentiation
		f = saga.WrapperDense(func(i int, x ad.Vector, y ad.MagicScalar) error {
			r, err := resid(i, ad.DenseFloat64Vector(floats(x)))
			if err != nil {
				return err
			}
			u := ad.NewReal64(0)
			tmp := ad.NewReal64(0)
			for j := 0; j < d; j++ {
				tmp.Mul(x.ConstAt(j), ad.ConstFloat64(A[i][j]))
				u.Add(u, tmp)
			}
			u.Sub(u, ad.ConstFloat64(b[i]))
			y.Mul(u, u)
			y.Mul(y, ad.ConstFloat64(0.5))
			if math.IsNaN(r) {
				y.Mul(y, ad.ConstFloat64(math.NaN()))
			}
			return nil
		})
	default:
		f = saga.Objective2Sparse(func(i int, x ad.DenseFloat64Vector) (float64, ad.SparseConstFloat64Vector, error) {
			r, err := resid(i, x)
			idx, val := []int{}, []float64{}
			for j, v := range A[i] {
				if v != 0 {
					idx = append(idx, j)
					val = append(val, r*v)
				}
			}
			return 0.5 * r * r, ad.NewSparseConstFloat64Vector(idx, val, d), err
		})
	}
	// the hook sees every iterate that did not end the run
	prev := append([]float64{}, x0...)
	hookCalls, hookStopped := 0, false
	var steps []float64 // relative steps of the epochs that did not end the run
	relDelta := func(a, bb []float64) float64 {
		mx, md := 0.0, 0.0
		for i := range a {
			mx = math.Max(mx, math.Abs(bb[i]))
			md = math.Max(md, math.Abs(bb[i]-a[i]))
		}
		if mx != 0 {
			return md / mx
		}
		return md
	}
	hook := saga.Hook{Value: func(x ad.ConstVector, delta, lam ad.ConstScalar, epoch int) bool {
		hookCalls++
		c.Steps++
		xv := floats(x)
		if hookCalls <= 40 {
			c.Logf("  epoch %d: x=%v relative step %g", epoch, xv, delta.GetFloat64())
		}
		if epoch != hookCalls-1 {
			c.Fail("hook", what+"|epoch-argument", "%s: hook call %d received epoch %d", what, hookCalls, epoch)
		}
		finite := true
		for _, v := range append(append([]float64{}, xv...), prev...) {
			if math.IsNaN(v) || math.IsInf(v, 0) || math.Abs(v) > 1e150 {
				finite = false
			}
		}
		if finite {
			if want := relDelta(prev, xv); !close9(want, delta.GetFloat64()) {
				c.Fail("hook", what+"|delta-argument", "%s: hook call %d reported a relative step of %.12g, but the iterate moved from %v to %v, i.e. %.12g", what, hookCalls, delta.GetFloat64(), prev, xv, want)
			}
			if !close9(lam.GetFloat64(), lambda) {
				c.Fail("hook", what+"|lambda-argument", "%s: hook call %d reported a regularisation strength of %.12g, configured %.12g", what, hookCalls, lam.GetFloat64(), lambda)
			}
		}
		steps = append(steps, relDelta(prev, xv))
		prev = xv
		if hookStopAt > 0 && hookCalls >= hookStopAt {
			hookStopped = true
			return true
		}
		return false
	}}
	args := []interface{}{hook, saga.Gamma{Value: gamma}, saga.Epsilon{Value: eps}, saga.MaxIterations{Value: maxIt}, saga.Seed{Value: seed}, &saga.InSitu{}}
	switch reg {
	case 0:
		args = append(args, saga.ProximalOperator{Value: &identityProx{}})
	case 1:
		args = append(args, saga.TikhonovRegularization{Value: lambda})
	case 2:
		args = append(args, saga.L1Regularization{Value: lambda})
	case 3:
		args = append(args, saga.L2Regularization{Value: lambda})
	default:
		args = append(args, saga.JitUpdate{Value: &saga.JitUpdateL1{Lambda: lambda}})
	}
	xstart := ad.NewDenseFloat64Vector(append([]float64{}, x0...))
	var xr ad.Vector
	var err error
	pv, site := core.Try(func() { xr, _, err = saga.Run(f, n, xstart, args...) })
	exit := ""
	switch {
	case pv != nil:
		exit = "panic"
		c.Logf("panic in %s: %v", site, pv)
	case err != nil:
		exit = "error"
	case hookStopped:
		exit = "hook-stop"
	case hookCalls >= maxIt:
		exit = "iteration-cap"
	default:
		exit = "converged"
	}
	c.Count("exit:" + exit)
	// the starting point is the caller's
	for i := range x0 {
		if xstart.Float64At(i) != x0[i] {
			c.Fail("x0-unchanged", what+"|x0-moved", "%s moved the starting point it was given: %v -> %v", what, x0, floats(xstart))
		}
	}
	c.Logf("exit=%s after %d epochs, %d evaluations, returned %v err=%v", exit, hookCalls, evals, vecFloats(xr), err)
	c.Nontriv = evals >= n+3
	c.StateStr(fmt.Sprint(what, reg, exit, d, failKind, hookStopAt > 0))
	c.Sample = map[string]interface{}{"routine": what, "regularisation": regName, "exit": exit, "epochs": hookCalls, "evaluations": evals, "dimension": d, "components": n}
	if pv != nil {
		if !faultHit {
			c.Fail("no-panic", what+"|panic|"+core.PanicClass(pv), "%s panicked in %s on a valid problem: %v", what, site, pv)
		}
		return
	}
	// a failure of the environment must be reported, never swallowed
	if faultHit && failKind == "error" && err == nil {
		c.Fail("error-reported", what+"|objective-error-swallowed", "%s: evaluation %d of the objective returned an error, but the run ended with err == nil (%s) and returned %v", what, failAt, exit, vecFloats(xr))
	}
	// a NaN handed back by a component objective enters the gradient table and
	// the running average and never leaves them: a run that ends without an
	// error after it has swallowed it, whatever it returns
	rowNonZero := false
	if faultRow >= 0 {
		for _, v := range A[faultRow] {
			rowNonZero = rowNonZero || v != 0
		}
	}
	// (a component with a zero data row has a zero gradient whatever its
	// residual is: a NaN there has no way in)
	if faultHit && failKind == "nan" && err == nil && rowNonZero {
		c.Fail("error-reported", what+"|objective-nan-swallowed", "%s (%s): evaluation %d of the objective returned NaN, but the run ended with err == nil (%s after %d epochs) and returned %v", what, regName, failAt, exit, hookCalls, vecFloats(xr))
	}
	if err == nil {
		for _, v := range vecFloats(xr) {
			if math.IsNaN(v) {
				c.Fail("error-reported", what+"|nan-point-returned-without-error", "%s returned %v with err == nil (%s)", what, vecFloats(xr), exit)
			}
		}
	}
	if exit != "converged" || faultHit {
		return
	}
	x := vecFloats(xr)
	// (1) the stated stopping condition, re-evaluated between the last published
	// iterate and the returned point
	if got := relDelta(prev, x); got > eps*gamma*(1+1e-9) {
		c.Fail("stopping-condition", what+"|step-not-below-epsilon", "%s returned %v without error, hook stop or cap after %d epochs, but the step from the previous epoch's iterate %v is %.6g relative, above epsilon*gamma = %.6g", what, x, hookCalls, prev, got, eps*gamma)
	}
	// (2) optimality on the strictly convex problem
	grad := make([]float64, d) // gradient of the smooth part (1/n) sum f_i
	for i := range A {
		r := -b[i]
		for j := 0; j < d; j++ {
			r += A[i][j] * x[j]
		}
		for j := 0; j < d; j++ {
			grad[j] += r * A[i][j] / float64(n)
		}
	}
	mu := s * s / float64(n) // strong convexity of the smooth part
	xn := 0.0
	for _, v := range x {
		xn = math.Max(xn, math.Abs(v))
	}
	// an epoch of n steps of size gamma moves the iterate by about n*gamma*grad,
	// so a relative step below eps*gamma bounds the gradient by eps*|x|/n and the
	// distance to the minimiser by that over mu; factor 1e4 for the stochastic
	// part (calibration counters below)
	if !regular && quadratic {
		c.Count("not-judged:minimiser-on-a-problem-with-few-or-degenerate-components")
		return
	}
	// One epoch of n steps of size gamma moves the iterate by about
	// n*gamma*gradient, and the gradient is at least mu times the distance to
	// the minimiser: distance <= step / (n*gamma*mu).  The final step can be
	// small by the luck of the draw, so the bound uses the largest of the last
	// five steps (all small by luck is the fifth power of a small probability), with a factor 1e6: SAGA's table of stale gradients makes the
	// iterate settle more slowly than its steps shrink, and the ratio
	// distance / (step*|x|/(n*gamma*mu)) has a heavy tail (calibration counters
	// below: typically 1e-2..1, about 1e-4 of the runs above 1, 1e-5 above 10,
	// none above 100 in 1e6 runs; every decade is about ten times rarer).
	if len(steps) < 4 {
		c.Count("not-judged:minimiser-when-the-run-ended-within-four-epochs")
		return
	}
	step := relDelta(prev, x)
	for _, v := range steps[len(steps)-4:] {
		step = math.Max(step, v)
	}
	tolD := 1e6*step*math.Max(xn, 1e-3)/(float64(n)*gamma*mu) + 1e-12
	switch {
	case quadratic:
		M := make([][]float64, d)
		rhs := make([]float64, d)
		for j := 0; j < d; j++ {
			M[j] = make([]float64, d)
			for k := 0; k < d; k++ {
				for i := range A {
					M[j][k] += A[i][j] * A[i][k]
				}
			}
			if reg == 1 {
				M[j][j] += lambda
			}
			for i := range A {
				rhs[j] += A[i][j] * b[i]
			}
		}
		xs := solveSmall(M, rhs)
		c.Count("judged:minimiser|" + regName)
		worst := 0.0
		for j := range x {
			worst = math.Max(worst, math.Abs(x[j]-xs[j])/tolD*1e6)
		}
		c.Count(fmt.Sprintf("calibration:distance-over-(step*|x|/(n*gamma*mu))<=1e%d", int(math.Ceil(math.Log10(worst+1e-300)))))
		for j := range x {
			if math.Abs(x[j]-xs[j]) > tolD {
				c.Count("distance-ratio-above-tolerance")
				c.Fail("minimiser", what+"|far-from-analytic-minimiser", "%s (%s) stopped at %v, the analytic minimiser is %v: coordinate %d is off by %.3g, tolerance %.3g (epsilon %g, gamma %.4g, mu %.4g)", what, regName, x, xs, j, math.Abs(x[j]-xs[j]), tolD, eps, gamma, mu)
			}
		}
	default:
		// the l1- and l2-norm-regularised problems are not quadratics: the
		// property promises the minimiser only for strictly convex quadratics,
		// and the step criterion can legitimately be met at other points (a
		// coordinate resting at 0 under a stale gradient)
		c.Count("not-judged:minimiser-of-the-l1-or-l2-norm-regularised-problem")

	}
}

