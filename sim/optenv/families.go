// Package optenv is engine C: the optimizer is the system, the simulator is
// its whole environment.  It implements the objective, the constraint
// predicate and the hook, owns the iteration / evaluation budget, records one
// event per callback and injects evaluation errors, NaN values, cancellation
// and small caps.  Objectives come from families with closed-form value,
// gradient, Hessian and (where it exists) optimum, evaluated here in float64
// and handed back through the AD types the API requires, so the oracle never
// trusts the library's own automatic differentiation.
package optenv

import (
	"fmt"
	"math"

	"verif/sim/core"
)

type family interface {
	name() string
	dim() int
	eval(x []float64) (f float64, g []float64, h [][]float64)
	optimum() []float64 // nil if not known in closed form
	lambdaMin() float64 // > 0 for strictly convex quadratics, else 0
}

/* strictly convex quadratic: f(x) = 1/2 (x-m)' Q (x-m) + c, Q = R diag(l) R' ------------- */

type quadratic struct {
	n   int
	q   [][]float64
	m   []float64
	c   float64
	lam []float64
}

func newQuadratic(t *core.Tape, n int) *quadratic {
	q := &quadratic{n: n, m: make([]float64, n), c: float64(t.Range(-3, 3))}
	// eigenvalues in [lmin, lmin*kappa], kappa <= 100
	lmin := []float64{0.25, 0.5, 1, 2}[t.Choose(4)]
	kappa := []float64{1, 2, 10, 100}[t.Choose(4)]
	q.lam = make([]float64, n)
	for i := range q.lam {
		q.lam[i] = lmin * math.Pow(kappa, float64(t.Range(0, 4))/4)
	}
	q.lam[0] = lmin
	// R: product of Givens rotations with drawn angles
	r := identity(n)
	for k := 0; k < n*(n-1)/2+1 && n > 1; k++ {
		i := t.Choose(n)
		j := t.Choose(n)
		if i == j {
			continue
		}
		th := float64(t.Range(0, 15)) * math.Pi / 16
		cs, sn := math.Cos(th), math.Sin(th)
		for a := 0; a < n; a++ {
			ri, rj := r[a][i], r[a][j]
			r[a][i] = cs*ri - sn*rj
			r[a][j] = sn*ri + cs*rj
		}
	}
	q.q = make([][]float64, n)
	for i := range q.q {
		q.q[i] = make([]float64, n)
		for j := range q.q[i] {
			for k := 0; k < n; k++ {
				q.q[i][j] += r[i][k] * q.lam[k] * r[j][k]
			}
		}
	}
	// exact symmetry
	for i := 0; i < n; i++ {
		for j := 0; j < i; j++ {
			q.q[i][j] = q.q[j][i]
		}
	}
	for i := range q.m {
		q.m[i] = float64(t.Range(-8, 8)) / 4
	}
	return q
}

func identity(n int) [][]float64 {
	r := make([][]float64, n)
	for i := range r {
		r[i] = make([]float64, n)
		r[i][i] = 1
	}
	return r
}

func (q *quadratic) name() string       { return fmt.Sprintf("quadratic(n=%d,lambda=%v)", q.n, q.lam) }
func (q *quadratic) dim() int           { return q.n }
func (q *quadratic) optimum() []float64 { return q.m }
func (q *quadratic) lambdaMin() float64 {
	l := q.lam[0]
	for _, x := range q.lam {
		if x < l {
			l = x
		}
	}
	return l
}
func (q *quadratic) eval(x []float64) (float64, []float64, [][]float64) {
	n := q.n
	g := make([]float64, n)
	f := q.c
	for i := 0; i < n; i++ {
		for j := 0; j < n; j++ {
			g[i] += q.q[i][j] * (x[j] - q.m[j])
		}
	}
	for i := 0; i < n; i++ {
		f += 0.5 * (x[i] - q.m[i]) * g[i]
	}
	return f, g, q.q
}

/* Rosenbrock type: f = (a-x)^2 + b (y - x^2)^2 ------------------------------------------- */

type rosenbrock struct{ a, b float64 }

func (r *rosenbrock) name() string       { return fmt.Sprintf("rosenbrock(a=%g,b=%g)", r.a, r.b) }
func (r *rosenbrock) dim() int           { return 2 }
func (r *rosenbrock) optimum() []float64 { return []float64{r.a, r.a * r.a} }
func (r *rosenbrock) lambdaMin() float64 { return 0 }
func (r *rosenbrock) eval(x []float64) (float64, []float64, [][]float64) {
	a, b := r.a, r.b
	u := x[1] - x[0]*x[0]
	f := (a-x[0])*(a-x[0]) + b*u*u
	g := []float64{-2*(a-x[0]) - 4*b*x[0]*u, 2 * b * u}
	h := [][]float64{{2 - 4*b*u + 8*b*x[0]*x[0], -4 * b * x[0]}, {-4 * b * x[0], 2 * b}}
	return f, g, h
}

/* separable convex: sum_i w_i ((x_i-m_i)^4 + (x_i-m_i)^2) ---------------------------------- */

type quartic struct {
	w, m []float64
}

func (q *quartic) name() string       { return fmt.Sprintf("separable-quartic(n=%d)", len(q.w)) }
func (q *quartic) dim() int           { return len(q.w) }
func (q *quartic) optimum() []float64 { return q.m }
func (q *quartic) lambdaMin() float64 { return 0 }
func (q *quartic) eval(x []float64) (float64, []float64, [][]float64) {
	n := len(q.w)
	g := make([]float64, n)
	h := make([][]float64, n)
	f := 0.0
	for i := 0; i < n; i++ {
		d := x[i] - q.m[i]
		f += q.w[i] * (d*d*d*d + d*d)
		g[i] = q.w[i] * (4*d*d*d + 2*d)
		h[i] = make([]float64, n)
		h[i][i] = q.w[i] * (12*d*d + 2)
	}
	return f, g, h
}

/* L2 regularised logistic loss: sum_k log(1+exp(-y_k a_k'x)) + lam/2 |x|^2 ------------------- */

type logistic struct {
	a   [][]float64
	y   []float64
	lam float64
	n   int
}

func (l *logistic) name() string       { return fmt.Sprintf("logistic(n=%d,records=%d,lambda=%g)", l.n, len(l.a), l.lam) }
func (l *logistic) dim() int           { return l.n }
func (l *logistic) optimum() []float64 { return nil }
func (l *logistic) lambdaMin() float64 { return 0 }
func (l *logistic) eval(x []float64) (float64, []float64, [][]float64) {
	n := l.n
	g := make([]float64, n)
	h := make([][]float64, n)
	for i := range h {
		h[i] = make([]float64, n)
		h[i][i] = l.lam
	}
	f := 0.0
	for i := 0; i < n; i++ {
		f += 0.5 * l.lam * x[i] * x[i]
		g[i] = l.lam * x[i]
	}
	for k := range l.a {
		z := 0.0
		for i := 0; i < n; i++ {
			z += l.a[k][i] * x[i]
		}
		z *= l.y[k]
		// log(1+exp(-z)), stable
		if z > 0 {
			f += math.Log1p(math.Exp(-z))
		} else {
			f += -z + math.Log1p(math.Exp(z))
		}
		s := 1 / (1 + math.Exp(z)) // sigma(-z)
		for i := 0; i < n; i++ {
			g[i] += -l.y[k] * l.a[k][i] * s
			for j := 0; j < n; j++ {
				h[i][j] += l.a[k][i] * l.a[k][j] * s * (1 - s)
			}
		}
	}
	return f, g, h
}

/* non-convex separable double well: sum_i w_i (x_i^2 - a_i)^2 ---------------------------------- */

type doublewell struct{ w, a []float64 }

func (d *doublewell) name() string       { return fmt.Sprintf("double-well(n=%d)", len(d.w)) }
func (d *doublewell) dim() int           { return len(d.w) }
func (d *doublewell) optimum() []float64 { return nil }
func (d *doublewell) lambdaMin() float64 { return 0 }
func (d *doublewell) eval(x []float64) (float64, []float64, [][]float64) {
	n := len(d.w)
	g := make([]float64, n)
	h := make([][]float64, n)
	f := 0.0
	for i := 0; i < n; i++ {
		u := x[i]*x[i] - d.a[i]
		f += d.w[i] * u * u
		g[i] = 4 * d.w[i] * x[i] * u
		h[i] = make([]float64, n)
		h[i][i] = 4 * d.w[i] * (3*x[i]*x[i] - d.a[i])
	}
	return f, g, h
}

/* waves: f(x) = sum_i w_i cos(a_i x_i + d_i) + q/2 |x|^2 -- along a ray the slope grows and
 * shrinks and changes sign, which is what the bracketing phase of a line search has to cope with */

type waves struct {
	w, a, d []float64
	q       float64
}

func (v *waves) name() string       { return fmt.Sprintf("waves(n=%d)", len(v.w)) }
func (v *waves) dim() int           { return len(v.w) }
func (v *waves) optimum() []float64 { return nil }
func (v *waves) lambdaMin() float64 { return 0 }
func (v *waves) eval(x []float64) (float64, []float64, [][]float64) {
	n := len(v.w)
	g := make([]float64, n)
	h := make([][]float64, n)
	f := 0.0
	for i := 0; i < n; i++ {
		u := v.a[i]*x[i] + v.d[i]
		f += v.w[i]*math.Cos(u) + 0.5*v.q*x[i]*x[i]
		g[i] = -v.w[i]*v.a[i]*math.Sin(u) + v.q*x[i]
		h[i] = make([]float64, n)
		h[i][i] = -v.w[i]*v.a[i]*v.a[i]*math.Cos(u) + v.q
	}
	return f, g, h
}

func genWaves(t *core.Tape) family {
	n := t.Range(1, 2)
	v := &waves{w: make([]float64, n), a: make([]float64, n), d: make([]float64, n), q: []float64{0, 0, 0.05, 0.25}[t.Choose(4)]}
	for i := 0; i < n; i++ {
		v.w[i] = float64(t.Range(1, 8)) / 2
		v.a[i] = float64(t.Range(1, 8)) / 2
		v.d[i] = float64(t.Range(-6, 6)) / 4
	}
	return v
}

func genFamily(t *core.Tape) family {
	switch t.Pick([]int{5, 3, 2, 2, 2}) {
	case 4:
		n := t.Range(1, 3)
		d := &doublewell{w: make([]float64, n), a: make([]float64, n)}
		for i := 0; i < n; i++ {
			d.w[i] = float64(t.Range(1, 8)) / 4
			d.a[i] = float64(t.Range(1, 8)) / 4
		}
		return d
	case 0:
		return newQuadratic(t, t.Range(1, 4))
	case 1:
		return &rosenbrock{a: float64(t.Range(1, 4)) / 2, b: []float64{1, 5, 20, 100}[t.Choose(4)]}
	case 2:
		n := t.Range(1, 3)
		q := &quartic{w: make([]float64, n), m: make([]float64, n)}
		for i := 0; i < n; i++ {
			q.w[i] = float64(t.Range(1, 8)) / 2
			q.m[i] = float64(t.Range(-6, 6)) / 4
		}
		return q
	default:
		n := t.Range(1, 3)
		k := t.Range(2, 6)
		l := &logistic{n: n, lam: []float64{0.1, 0.5, 1}[t.Choose(3)]}
		for r := 0; r < k; r++ {
			row := make([]float64, n)
			for i := range row {
				row[i] = float64(t.Range(-4, 4)) / 2
			}
			l.a = append(l.a, row)
			l.y = append(l.y, float64(2*t.Choose(2)-1))
		}
		return l
	}
}

/* polynomial system with a planted root: F(x) = A (x-r) + b * (x-r).(x-r) ------------------- */

type system struct {
	n int
	a [][]float64
	b []float64
	r []float64
}

func genSystem(t *core.Tape) *system {
	n := t.Range(1, 3)
	s := &system{n: n, b: make([]float64, n), r: make([]float64, n)}
	q := newQuadratic(t, n) // SPD matrix: regular Jacobian at the root
	s.a = q.q
	for i := 0; i < n; i++ {
		s.b[i] = float64(t.Range(0, 4)) / 8
		s.r[i] = float64(t.Range(-6, 6)) / 4
	}
	return s
}

func (s *system) eval(x []float64) (f []float64, j [][]float64) {
	n := s.n
	f = make([]float64, n)
	j = make([][]float64, n)
	for i := 0; i < n; i++ {
		j[i] = make([]float64, n)
		for k := 0; k < n; k++ {
			f[i] += s.a[i][k] * (x[k] - s.r[k])
			j[i][k] = s.a[i][k]
		}
		d := x[i] - s.r[i]
		f[i] += s.b[i] * d * d
		j[i][i] += 2 * s.b[i] * d
	}
	return
}

func norm2(v []float64) float64 {
	s := 0.0
	for _, x := range v {
		s += x * x
	}
	return math.Sqrt(s)
}
