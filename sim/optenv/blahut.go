package optenv

import (
	"fmt"
	"math"

	ad "github.com/pbenner/autodiff"
	"github.com/pbenner/autodiff/algorithm/blahut"
	"verif/sim/core"
)

/* Blahut-Arimoto in an environment ------------------------------------------------------------
 *
 * blahut.Run has no stopping rule of its own: it performs the number of steps
 * it is given unless the hook ends it.  What the property names for it are the
 * capacity optimality conditions; what can be decided without inventing a
 * tolerance is Arimoto's bound: started from p0 with full support, after k
 * steps the mutual information of the iterate is within
 * max_i ln(1/p0_i) / k nats of the capacity.  The reference capacity comes
 * from the environment's own iteration, run until its upper bound
 * max_i D(W_i || q) and lower bound agree to 1e-12.  The hook is the seam:
 * it sees every iterate, which must be a distribution, and the value J it is
 * handed must be the lower bound log2 sum_i p_i exp D(W_i || pW) of the
 * previous iterate and must never exceed the capacity.
 */

func klRow(w []float64, q []float64) float64 {
	d := 0.0
	for j := range w {
		if w[j] > 0 {
			d += w[j] * math.Log(w[j]/q[j])
		}
	}
	return d
}

func outDist(W [][]float64, p []float64) []float64 {
	q := make([]float64, len(W[0]))
	for i := range W {
		for j := range q {
			q[j] += p[i] * W[i][j]
		}
	}
	return q
}

func mutualInfo(W [][]float64, p []float64) float64 {
	q := outDist(W, p)
	r := 0.0
	for i := range W {
		if p[i] > 0 {
			r += p[i] * klRow(W[i], q)
		}
	}
	return r
}

// capacity (nats) by the environment's own iteration: lower and upper bound
func capacityRef(W [][]float64) (float64, float64) {
	n := len(W)
	p := make([]float64, n)
	for i := range p {
		p[i] = 1 / float64(n)
	}
	lo, hi := 0.0, math.Inf(1)
	for k := 0; k < 200000; k++ {
		q := outDist(W, p)
		d := make([]float64, n)
		s, mx := 0.0, math.Inf(-1)
		for i := range p {
			d[i] = klRow(W[i], q)
			s += p[i] * math.Exp(d[i])
			mx = math.Max(mx, d[i])
		}
		lo, hi = math.Log(s), mx
		if hi-lo < 1e-13 {
			break
		}
		for i := range p {
			p[i] = p[i] * math.Exp(d[i]) / s
		}
	}
	return lo, hi
}

func RunBlahut(c *core.Ctx) {
	t := c.Tape
	n := t.Range(2, 4) // inputs
	m := t.Range(2, 4) // outputs
	naive := t.Bool(1, 2)
	W := make([][]float64, n)
	for i := range W {
		W[i] = make([]float64, m)
		s := 0.0
		for j := range W[i] {
			// zeros are legal channel entries
			W[i][j] = float64(t.Pick([]int{2, 3, 2, 1, 1, 1}))
			if naive && W[i][j] == 0 {
				// RunNaive is the plain float transcription without the
				// "0 log 0 = 0" convention that Run implements
				W[i][j] = 1
			}
			s += W[i][j]
		}
		if s == 0 {
			W[i][t.Choose(m)] = 1
			s = 1
		}
		for j := range W[i] {
			W[i][j] /= s
		}
	}
	// options that leave the ground of Arimoto's theorem: an initial
	// distribution with zero-mass symbols, an acceleration parameter lambda
	// other than 1.  Then only the structural oracles apply: every iterate is
	// a distribution (no NaN), the step count, the starting vector untouched.
	lambda := 1.0
	structuralOnly := false
	if !naive && t.Bool(1, 4) {
		lambda = []float64{0.5, 1.5, 2}[t.Choose(3)]
		structuralOnly = true
	}
	zeroMass := t.Bool(1, 5)
	p0 := make([]float64, n)
	s := 0.0
	for i := range p0 {
		p0[i] = float64(t.Range(1, 4))
		if zeroMass && i > 0 && t.Bool(1, 2) {
			p0[i] = 0
			structuralOnly = true
		}
		s += p0[i]
	}
	// a zero-mass symbol must not be the only way to reach an output: the
	// posterior of that output is 0/0 then, which is outside what the routine
	// (and Arimoto's setting) defines
	for j := 0; j < m; j++ {
		reach, col := 0.0, 0.0
		for i := 0; i < n; i++ {
			reach += p0[i] * W[i][j]
			col += W[i][j]
		}
		if col > 0 && reach == 0 {
			for i := range p0 {
				if p0[i] == 0 {
					p0[i] = 1
					s++
				}
			}
			break
		}
	}
	worst := 0.0
	for i := range p0 {
		p0[i] /= s
		if p0[i] > 0 {
			worst = math.Max(worst, math.Log(1/p0[i]))
		}
	}
	steps := []int{1, 3, 10, 50, 400}[t.Choose(5)]
	hookStopAt := 0
	if c.Scenario == "blahut-faults" && t.Bool(1, 2) {
		hookStopAt = t.Range(1, steps)
	}
	what := "blahut.Run"
	if naive {
		what = "blahut.RunNaive"
	}
	c.Logf("%s channel %v p0=%v steps=%d hookStop=%d lambda=%g", what, W, p0, steps, hookStopAt, lambda)
	lo, hi := capacityRef(W)
	if hi-lo > 1e-9 {
		c.Count("not-judged:reference-capacity-not-converged")
		return
	}
	capNats := lo
	prev := append([]float64{}, p0...)
	calls := 0
	var lastJ float64 = math.Inf(-1)
	onHook := func(p []float64, J float64) bool {
		calls++
		c.Steps++
		sum := 0.0
		for _, v := range p {
			if v < 0 || math.IsNaN(v) {
				c.Fail("hook", what+"|iterate-not-a-distribution", "%s: iterate %d is %v", what, calls, p)
			}
			sum += v
		}
		if math.Abs(sum-1) > 1e-9 {
			c.Fail("hook", what+"|iterate-not-a-distribution", "%s: iterate %d sums to %.12g: %v", what, calls, sum, p)
		}
		if structuralOnly {
			prev = append([]float64{}, p...)
			return hookStopAt > 0 && calls >= hookStopAt
		}
		// J (bits) is the lower bound computed from the previous iterate
		q := outDist(W, prev)
		sj := 0.0
		for i := range prev {
			if prev[i] > 0 {
				sj += prev[i] * math.Exp(klRow(W[i], q))
			}
		}
		want := math.Log(sj) / math.Ln2
		if math.Abs(J-want) > 1e-9*(1+math.Abs(want)) {
			c.Fail("hook", what+"|J-argument", "%s: hook call %d reported J = %.12g bits, the lower bound of the iterate it was computed from (%v) is %.12g", what, calls, J, prev, want)
		}
		if J > capNats/math.Ln2+1e-9 {
			c.Fail("hook", what+"|J-above-capacity", "%s: hook call %d reported a lower bound of %.12g bits, the capacity is %.12g", what, calls, J, capNats/math.Ln2)
		}
		if J < lastJ-1e-9 {
			c.Fail("hook", what+"|J-decreased", "%s: the lower bound went from %.12g to %.12g bits at call %d", what, lastJ, J, calls)
		}
		lastJ = J
		prev = append([]float64{}, p...)
		return hookStopAt > 0 && calls >= hookStopAt
	}
	var res []float64
	pGiven := append([]float64{}, p0...)
	pv, site := core.Try(func() {
		if naive {
			res = blahut.RunNaive(W, pGiven, steps, blahut.HookNaive{Value: onHook})
		} else {
			flat := []float64{}
			for i := range W {
				flat = append(flat, W[i]...)
			}
			r := blahut.Run(ad.NewDenseFloat64Matrix(flat, n, m), ad.NewDenseFloat64Vector(append([]float64{}, p0...)), steps,
				blahut.Hook{Value: func(p ad.Vector, J ad.Scalar) bool { return onHook(floats(p), J.GetFloat64()) }}, blahut.Lambda{Value: lambda})
			res = floats(r)
		}
	})
	for i := range p0 {
		if pGiven[i] != p0[i] {
			c.Fail("x0-unchanged", what+"|start-moved", "%s changed the initial distribution it was given: %v -> %v", what, p0, pGiven)
		}
	}
	c.Nontriv = true
	c.StateStr(fmt.Sprint(what, n, m, steps, hookStopAt > 0))
	c.Sample = map[string]interface{}{"routine": what, "inputs": n, "outputs": m, "steps": steps, "capacity_bits": capNats / math.Ln2}
	if pv != nil {
		c.Fail("no-panic", what+"|panic|"+core.PanicClass(pv), "%s panicked in %s on a valid channel: %v", what, site, pv)
	}
	k := calls
	if k == 0 {
		return
	}
	if hookStopAt == 0 && k != steps {
		c.Fail("hook", what+"|steps-performed", "%s was asked for %d steps and performed %d", what, steps, k)
	}
	for _, v := range res {
		if math.IsNaN(v) || v < 0 {
			c.Fail("capacity", what+"|result-not-a-distribution", "%s returned %v (channel %v, p0=%v, lambda=%g, %d steps)", what, res, W, p0, lambda, k)
		}
	}
	if structuralOnly {
		c.Count("not-judged:arimoto-bound-without-full-support-or-with-lambda-other-than-1")
		return
	}
	// Arimoto: C - I(p_k) <= D(p* || p0) / k <= max_i ln(1/p0_i) / k
	I := mutualInfo(W, res)
	if gap, bound := capNats-I, worst/float64(k); gap > bound+1e-9 {
		c.Fail("capacity", what+"|gap-above-arimoto-bound", "%s: after %d steps from p0=%v the returned distribution %v has mutual information %.12g nats, the capacity is %.12g: the gap %.6g exceeds Arimoto's bound %.6g", what, k, p0, res, I, capNats, gap, bound)
	}
	c.Count("exit:steps-performed")
}
