// Package avl is the C19 instance of the shared-storage world simulator: the
// actors are handles onto AVL trees (the tree itself, clones, live iterators,
// iterator clones, snapshot iterators); the tape decides which actor moves
// next and how.  The reference model is a sorted set; structural invariants
// are read through the exported node fields after every step.
package avl

import (
	"fmt"
	"math"
	"sort"

	ad "github.com/pbenner/autodiff"
	"verif/sim/core"
)

type treeH struct {
	t   *ad.AvlTree
	set map[int]bool
}

type iterH struct {
	it    *ad.AvlIterator
	tree  int          // index of the tree it walks (-1: private snapshot)
	snap  []int        // snapshot model for Safe iterators
	prev  int          // value of the position it is on
	alive bool         // Ok() was true at the last observation
}

type world struct {
	c     *core.Ctx
	trees []*treeH
	iters []*iterH
	keys  []int // key universe
	maxSz int
	muts  int
}

func sortedSet(m map[int]bool) []int {
	r := make([]int, 0, len(m))
	for k := range m {
		r = append(r, k)
	}
	sort.Ints(r)
	return r
}

// succ returns the smallest element of s strictly greater than v (strict) or
// >= v (!strict).
func succ(s []int, v int, strict bool) (int, bool) {
	for _, x := range s {
		if (strict && x > v) || (!strict && x >= v) {
			return x, true
		}
	}
	return 0, false
}

func universe(t *core.Tape) []int {
	switch t.Pick([]int{3, 4, 2, 2}) {
	case 0:
		return seq(0, 8)
	case 1:
		return seq(0, 16)
	case 2:
		return seq(-20, 44)
	default:
		// sparse wide universe incl. negatives and keys next to the int bounds
		return []int{math.MinInt, math.MinInt + 1, -1 << 40, -1000, -2, -1, 0, 1, 2, 3, 7, 1000, 1001, 1 << 40, math.MaxInt - 2, math.MaxInt - 1}
	}
}

func seq(lo, n int) []int {
	r := make([]int, n)
	for i := range r {
		r[i] = lo + i
	}
	return r
}

func Run(c *core.Ctx) {
	t := c.Tape
	w := &world{c: c}
	w.keys = universe(t)
	nops := t.Range(4, 60)
	w.trees = append(w.trees, &treeH{ad.NewAvlTree(), map[int]bool{}})
	// pre-fill so that histories start from trees of various sizes
	pre := t.Choose(len(w.keys) + 1)
	for i := 0; i < pre; i++ {
		k := w.keys[t.Choose(len(w.keys))]
		w.insert(0, k)
	}
	w.checkAll("prefill")
	for op := 0; op < nops; op++ {
		c.Steps++
		w.step()
		w.checkAll("step")
	}
	// drain every live iterator: it must finish with exactly the surviving
	// larger elements
	for i := range w.iters {
		for n := 0; w.iters[i].alive && n < 200; n++ {
			w.next(i)
		}
	}
	c.Nontriv = w.muts >= 6 && w.maxSz >= 4
	if c.Nontriv && c.Sample == nil {
		c.Sample = map[string]interface{}{"ops": nops, "prefill": pre, "universe": len(w.keys), "set_mutations": w.muts, "max_size": w.maxSz, "iterators": len(w.iters), "trees": len(w.trees)}
	}
}

func (w *world) pickKey(ti int) int {
	t := w.c.Tape
	// bias towards the neighbourhood of a live iterator on this tree
	if t.Bool(1, 2) {
		cands := []int{}
		for _, it := range w.iters {
			if it.tree == ti && it.alive {
				cands = append(cands, it.prev)
			}
		}
		if len(cands) > 0 {
			v := cands[t.Choose(len(cands))]
			s := sortedSet(w.trees[ti].set)
			switch t.Choose(4) {
			case 0:
				return v
			case 1:
				if x, ok := succ(s, v, true); ok {
					return x
				}
			case 2:
				for i := len(s) - 1; i >= 0; i-- {
					if s[i] < v {
						return s[i]
					}
				}
			case 3:
				// nearest universe key above
				for _, k := range w.keys {
					if k > v {
						return k
					}
				}
			}
			return v
		}
	}
	return w.keys[t.Choose(len(w.keys))]
}

func (w *world) insert(ti, k int) {
	th := w.trees[ti]
	rootBefore, had := 0, th.t.Root != nil
	if had {
		rootBefore = th.t.Root.Value
	}
	var got bool
	if pv, site := core.Try(func() { got = th.t.Insert(k) }); pv != nil {
		w.c.Fail("no-panic", "Insert|"+core.PanicClass(pv), "Insert(%d) panicked in %s: %v", k, site, pv)
	}
	want := !th.set[k]
	w.c.Logf("tree%d.Insert(%d) -> %v", ti, k, got)
	if got != want {
		w.c.Fail("return-value", "Insert", "tree%d.Insert(%d) returned %v, set membership says %v", ti, k, got, want)
	}
	if want {
		th.set[k] = true
		w.muts++
		if len(th.set) > w.maxSz {
			w.maxSz = len(th.set)
		}
		if had && th.t.Root.Value != rootBefore {
			w.c.Count("probe:root-value-changed-by-insert-rotation")
		}
	}
}

func (w *world) delete(ti, k int) {
	th := w.trees[ti]
	if n := th.t.FindNode(k); n != nil {
		if n.Left != nil && n.Right != nil {
			w.c.Count("probe:delete-node-with-two-children")
		}
		for _, it := range w.iters {
			if it.tree == ti && it.alive && it.prev == k {
				w.c.Count("probe:delete-under-live-iterator")
			}
		}
	}
	var got bool
	if pv, site := core.Try(func() { got = th.t.Delete(k) }); pv != nil {
		w.c.Fail("no-panic", "Delete|"+core.PanicClass(pv), "Delete(%d) panicked in %s: %v", k, site, pv)
	}
	want := th.set[k]
	w.c.Logf("tree%d.Delete(%d) -> %v", ti, k, got)
	if got != want {
		w.c.Fail("return-value", "Delete", "tree%d.Delete(%d) returned %v, set membership says %v", ti, k, got, want)
	}
	if want {
		delete(th.set, k)
		w.muts++
	}
}

func (w *world) step() {
	t := w.c.Tape
	ti := t.Choose(len(w.trees))
	th := w.trees[ti]
	switch t.Pick([]int{30, 26, 22, 4, 4, 2, 4, 4, 2, 2}) {
	case 0:
		w.insert(ti, w.pickKey(ti))
	case 1:
		w.delete(ti, w.pickKey(ti))
	case 2:
		if len(w.iters) == 0 {
			w.newIter(ti, false)
		} else {
			w.next(t.Choose(len(w.iters)))
		}
	case 3:
		w.newIter(ti, false)
	case 4:
		w.newIter(ti, true)
	case 5: // clone the tree: an independent handle
		if len(w.trees) < 3 {
			var cl *ad.AvlTree
			if pv, site := core.Try(func() { cl = th.t.Clone() }); pv != nil {
				w.c.Fail("no-panic", "Clone|"+core.PanicClass(pv), "Clone panicked in %s: %v", site, pv)
			}
			m := map[int]bool{}
			for k := range th.set {
				m[k] = true
			}
			w.trees = append(w.trees, &treeH{cl, m})
			w.c.Logf("tree%d = tree%d.Clone()", len(w.trees)-1, ti)
		}
	case 6: // FindNode
		k := w.pickKey(ti)
		n := th.t.FindNode(k)
		w.c.Logf("tree%d.FindNode(%d) -> %v", ti, k, n != nil)
		if (n != nil) != th.set[k] || (n != nil && n.Value != k) {
			w.c.Fail("membership", "FindNode", "tree%d.FindNode(%d) = %v, member=%v", ti, k, n, th.set[k])
		}
	case 7: // FindNodeLE: smallest key >= k
		k := w.pickKey(ti)
		n := th.t.FindNodeLE(k)
		x, ok := succ(sortedSet(th.set), k, false)
		w.c.Logf("tree%d.FindNodeLE(%d) -> %v", ti, k, n != nil)
		if (n != nil) != ok || (n != nil && n.Value != x) {
			w.c.Fail("lower-bound", "FindNodeLE", "tree%d.FindNodeLE(%d) = %v, smallest key >= %d is (%d,%v)", ti, k, n, k, x, ok)
		}
	case 8: // clone an iterator
		if len(w.iters) > 0 && len(w.iters) < 4 {
			i := t.Choose(len(w.iters))
			src := w.iters[i]
			cl := src.it.Clone()
			w.iters = append(w.iters, &iterH{it: &cl, tree: src.tree, snap: src.snap, prev: src.prev, alive: src.alive})
			w.c.Logf("iter%d = iter%d.Clone()", len(w.iters)-1, i)
		}
	case 9: // snapshot iterator
		if len(w.iters) < 4 {
			from := t.Bool(1, 2)
			s := sortedSet(th.set)
			h := &iterH{tree: -1, snap: s}
			var x int
			var ok bool
			if from {
				k := w.pickKey(ti)
				h.it = th.t.SafeIteratorFrom(k)
				x, ok = succ(s, k, false)
				w.c.Logf("iter%d = tree%d.SafeIteratorFrom(%d)", len(w.iters), ti, k)
			} else {
				h.it = th.t.SafeIterator()
				if len(s) > 0 {
					x, ok = s[0], true
				}
				w.c.Logf("iter%d = tree%d.SafeIterator()", len(w.iters), ti)
			}
			w.iters = append(w.iters, h)
			w.observe(len(w.iters)-1, x, ok, "SafeIterator")
		}
	}
}

func (w *world) newIter(ti int, from bool) {
	if len(w.iters) >= 4 {
		// replace the oldest finished iterator, if any
		idx := -1
		for i, it := range w.iters {
			if !it.alive {
				idx = i
				break
			}
		}
		if idx < 0 {
			return
		}
		w.iters = append(w.iters[:idx], w.iters[idx+1:]...)
	}
	th := w.trees[ti]
	s := sortedSet(th.set)
	h := &iterH{tree: ti}
	var x int
	var ok bool
	what := "Iterator"
	if from {
		k := w.pickKey(ti)
		h.it = th.t.IteratorFrom(k)
		x, ok = succ(s, k, false)
		what = "IteratorFrom"
		w.c.Logf("iter%d = tree%d.IteratorFrom(%d)", len(w.iters), ti, k)
	} else {
		h.it = th.t.Iterator()
		if len(s) > 0 {
			x, ok = s[0], true
		}
		w.c.Logf("iter%d = tree%d.Iterator()", len(w.iters), ti)
	}
	w.iters = append(w.iters, h)
	w.observe(len(w.iters)-1, x, ok, what)
}

// observe compares the iterator's public state with the model's expectation.
func (w *world) observe(i int, x int, ok bool, what string) {
	h := w.iters[i]
	gotOk := h.it.Ok()
	if gotOk != ok {
		w.c.Fail("iterator", what+"|Ok", "iter%d after %s: Ok()=%v, model expects %v (next element %d)", i, what, gotOk, ok, x)
	}
	if ok {
		if g := h.it.Get(); g != x {
			w.c.Fail("iterator", what+"|Get", "iter%d after %s: Get()=%d, model expects %d", i, what, g, x)
		}
		h.prev = x
	}
	h.alive = ok
}

func (w *world) next(i int) {
	h := w.iters[i]
	if !h.alive {
		// an iterator that has run off the end stays ended
		if pv, site := core.Try(func() { h.it.Next() }); pv != nil {
			w.c.Fail("no-panic", "Next-after-end|"+core.PanicClass(pv), "Next() on an ended iterator panicked in %s: %v", site, pv)
		}
		if h.it.Ok() {
			w.c.Fail("iterator", "Next-after-end|Ok", "iter%d: ended iterator became Ok() again after Next()", i)
		}
		w.c.Logf("iter%d.Next() (ended)", i)
		return
	}
	var s []int
	if h.tree >= 0 {
		s = sortedSet(w.trees[h.tree].set)
	} else {
		s = h.snap
	}
	x, ok := succ(s, h.prev, true)
	if pv, site := core.Try(func() { h.it.Next() }); pv != nil {
		w.c.Fail("no-panic", "Next|"+core.PanicClass(pv), "iter%d.Next() panicked in %s: %v", i, site, pv)
	}
	w.c.Logf("iter%d.Next() from %d -> ok=%v", i, h.prev, h.it.Ok())
	w.c.Count("iterator-next")
	w.observe(i, x, ok, "Next")
}

/* invariants after every step ------------------------------------------------ */

func (w *world) checkAll(when string) {
	h := uint64(1469598103934665603)
	for ti, th := range w.trees {
		s := sortedSet(th.set)
		// full ascending iteration equals the set
		got := []int{}
		n := 0
		for it := th.t.Iterator(); it.Ok(); it.Next() {
			got = append(got, it.Get())
			if n++; n > len(s)+2 {
				break
			}
		}
		if !equalInts(got, s) {
			w.c.Fail("iteration", "full-iteration", "tree%d full iteration %v differs from the set %v (%s)", ti, got, s, when)
		}
		if msg := structure(th.t, len(s)); msg != "" {
			w.c.Fail("structure", msg, "tree%d after %s: %s; tree=%s set=%v", ti, when, msg, th.t.String(), s)
		}
		for _, x := range s {
			h ^= uint64(x) + uint64(ti)<<56
			h *= 1099511628211
		}
		h ^= 0xabcdef
		h *= 1099511628211
	}
	for _, it := range w.iters {
		if it.alive {
			h ^= uint64(it.prev) * 31
		} else {
			h ^= 0x77
		}
		h *= 1099511628211
	}
	w.c.State(h)
}

func equalInts(a, b []int) bool {
	if len(a) != len(b) {
		return false
	}
	for i := range a {
		if a[i] != b[i] {
			return false
		}
	}
	return true
}

// structure checks BST order, balance factors, parent links and the Deleted
// flag through the exported node fields.  It returns "" or a short class.
func structure(t *ad.AvlTree, size int) string {
	if t.Root == nil {
		if size != 0 {
			return "empty-root"
		}
		return ""
	}
	if t.Root.Parent != nil {
		return "root-has-parent"
	}
	count := 0
	msg := ""
	var rec func(n *ad.AvlNode, lo, hi *int) int
	rec = func(n *ad.AvlNode, lo, hi *int) int {
		if n == nil || msg != "" {
			return 0
		}
		count++
		if count > size+4 {
			msg = "cycle-or-extra-nodes"
			return 0
		}
		if n.Deleted {
			msg = "reachable-deleted-node"
			return 0
		}
		if (lo != nil && n.Value <= *lo) || (hi != nil && n.Value >= *hi) {
			msg = "bst-order"
			return 0
		}
		if n.Left != nil && n.Left.Parent != n {
			msg = "parent-link"
			return 0
		}
		if n.Right != nil && n.Right.Parent != n {
			msg = "parent-link"
			return 0
		}
		hl := rec(n.Left, lo, &n.Value)
		hr := rec(n.Right, &n.Value, hi)
		if msg != "" {
			return 0
		}
		if d := hr - hl; d < -1 || d > 1 {
			msg = fmt.Sprintf("not-height-balanced")
			return 0
		} else if n.Balance != d {
			msg = "balance-factor"
			return 0
		}
		if hl > hr {
			return hl + 1
		}
		return hr + 1
	}
	rec(t.Root, nil, nil)
	if msg == "" && count != size {
		msg = "node-count"
	}
	return msg
}

func init() {
	core.Register(&core.Property{
		ID:     "C19",
		Level:  "exploration",
		Engine: "B: shared-storage world simulator (AVL instance)",
		Scenarios: []core.Scenario{
			{Name: "history", Weight: 1},
		},
		Run:      Run,
		StepUnit: "operations by handles (tree, clone, iterator) on shared trees",
		Rule: "one run = one seeded history of <=60 operations (Insert/Delete/FindNode/FindNodeLE/Clone/Iterator/IteratorFrom/Next/iterator Clone/SafeIterator) interleaved by the tape over <=3 trees and <=4 live iterators, key universe drawn per run (8, 16, 64 dense keys, or a sparse universe next to the int bounds); keys biased to the neighbourhood of live iterators. Non-trivial = at least 6 set-changing operations and a set of size >=4 reached. Distinct = distinct hash of the sequence of abstract states (contents of every tree + position of every iterator after every step).",
		Assumptions: []string{
			"keys up to MaxInt-1 (an iterator re-find computes value+1)",
			"iterators that have run off the end are only required to stay ended",
			"single caller thread: the tree is not thread-safe by contract; the interleaving explored is that of handles, decided by the tape",
		},
		RealCode:     []string{"autodiff.AvlTree, AvlNode, AvlIterator (all methods)"},
		Stubs:        []string{"none (reference model: sorted set of ints)"},
		Caps:         map[string]int{"ops_per_run": 60, "trees": 3, "live_iterators": 4},
		QuickRuns:    400000,
		ThoroughRuns: 6000000,
		StallS:       20,
	})
}
