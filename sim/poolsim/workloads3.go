package poolsim

import (
	"fmt"
	"math"

	ad "github.com/pbenner/autodiff"
	st "github.com/pbenner/autodiff/statistics"
	"github.com/pbenner/autodiff/statistics/generic"
	md "github.com/pbenner/autodiff/statistics/matrixDistribution"
	me "github.com/pbenner/autodiff/statistics/matrixEstimator"
	sd "github.com/pbenner/autodiff/statistics/scalarDistribution"
	vd "github.com/pbenner/autodiff/statistics/vectorDistribution"
	se "github.com/pbenner/autodiff/statistics/scalarEstimator"
	ve "github.com/pbenner/autodiff/statistics/vectorEstimator"
	tp "github.com/pbenner/threadpool"
	"verif/sim/core"
)

/* W7: matrix estimators ------------------------------------------------------------------
 *
 * The third tier of the estimator hierarchy: records are matrices.  VectorId
 * hands row i of every record to vector estimator i; the matrix mixture runs
 * EM over whole records; the matrix HMM runs Baum-Welch over sequences whose
 * observations are the rows of a record.
 */

func matOf(m ad.ConstMatrix) []float64 {
	if m == nil {
		return nil
	}
	r, k := m.Dims()
	v := make([]float64, 0, r*k)
	for i := 0; i < r; i++ {
		for j := 0; j < k; j++ {
			v = append(v, m.ConstAt(i, j).GetFloat64())
		}
	}
	return v
}

func snapMats(ms []ad.ConstMatrix, gamma ad.ConstVector) [][]float64 {
	r := make([][]float64, 0, len(ms)+1)
	for _, m := range ms {
		r = append(r, matOf(m))
	}
	return append(r, vecOf(gamma))
}

func estimateMatrix(est st.MatrixEstimator, x []ad.ConstMatrix, gamma ad.ConstVector, p tp.ThreadPool, withPdf bool) outcome {
	var o outcome
	var err error
	if pv, site := core.Try(func() { err = est.EstimateOnData(x, gamma, p) }); pv != nil {
		if _, ok := pv.(tp.Abort); ok {
			panic(pv)
		}
		o.err = fmt.Sprintf("panic in %s: %v", site, pv)
		return o
	}
	if err != nil {
		o.err = err.Error()
		return o
	}
	d, err := est.GetEstimate()
	if err != nil {
		o.err = err.Error()
		return o
	}
	o.params = vecOf(d.GetParameters())
	if withPdf {
		r := ad.NewFloat64(0)
		for _, rec := range x {
			if pv, _ := core.Try(func() { err = d.LogPdf(r, rec) }); pv == nil && err == nil {
				o.extra = append(o.extra, r.GetFloat64())
			}
		}
	}
	return o
}

func RunMatrixEstimators(c *core.Ctx, checkEM bool) {
	t := c.Tape
	cfg := drawPool(t)
	kind := t.Choose(6)
	if checkEM {
		kind = []int{1, 2, 4, 5}[t.Choose(4)]
	}
	rows := t.Range(1, 3)
	cols := t.Range(1, 3)
	nrec := t.Range(2, 6)
	emis := t.Choose(2) // normal / categorical scalars
	cell := func() float64 {
		if emis == 0 {
			return float64(t.Range(-12, 12)) / 4
		}
		return float64(t.Choose(3))
	}
	mkRow := func(shift float64) st.VectorEstimator {
		es := make([]st.ScalarEstimator, cols)
		for j := range es {
			if emis == 0 {
				es[j], _ = se.NewNormalEstimator(shift+float64(j)/2, 1, 0.25)
			} else {
				a := 0.2 + 0.1*math.Mod(math.Abs(shift), 3)
				es[j], _ = se.NewCategoricalEstimator([]float64{a, 0.5, 0.5 - a})
			}
		}
		e, err := ve.NewScalarId(es...)
		if err != nil {
			panic(err)
		}
		return e
	}
	mkId := func(shift float64, n int) st.MatrixEstimator {
		rs := make([]st.VectorEstimator, n)
		for i := range rs {
			rs[i] = mkRow(shift + float64(i))
		}
		e, err := me.NewVectorId(rs...)
		if err != nil {
			panic(err)
		}
		return e
	}
	var recs []ad.ConstMatrix
	var gamma ad.ConstVector
	var mk func(tr *[]float64) (st.MatrixEstimator, error)
	what := ""
	steps := t.Range(1, 4)
	if checkEM {
		steps = t.Range(2, 8)
	}
	// estimator options
	optE, optW := !t.Bool(1, 5), !t.Bool(1, 5)
	chunk := 0
	if t.Bool(1, 3) {
		chunk = t.Range(1, 4)
	}
	withOptions := func(e st.MatrixEstimator, err error) (st.MatrixEstimator, error) {
		switch x := e.(type) {
		case *me.MixtureEstimator:
			if x != nil {
				x.OptimizeEmissions, x.OptimizeWeights = optE, optW
			}
		case *me.HmmEstimator:
			if x != nil {
				x.OptimizeEmissions, x.ChunkSize = optE, chunk
			}
		}
		return e, err
	}
	switch kind {
	case 0:
		what = fmt.Sprintf("matrix:vector-id(%dx%d,%s)", rows, cols, []string{"normal", "categorical"}[emis])
		mk = func(*[]float64) (st.MatrixEstimator, error) { return mkId(0, rows), nil }
		gamma = nil
	case 1:
		what = fmt.Sprintf("matrix:mixture(vector-id x2,%dx%d,%s,steps=%d)", rows, cols, []string{"normal", "categorical"}[emis], steps)
		mk = func(tr *[]float64) (st.MatrixEstimator, error) {
			hook := generic.EmHook{Value: func(m generic.BasicMixture, i int, likelihood, epsilon float64) {
				if i > 0 {
					*tr = append(*tr, likelihood)
				}
			}}
			return withOptions(me.NewMixtureEstimator([]float64{1, 2}, []st.MatrixEstimator{mkId(-1, rows), mkId(1, rows)}, math.Inf(-1), steps, hook))
		}
	case 5:
		// user-assembled model: a matrix mixture over fixed components (vector-iid
		// distributions wrapped in NilEstimator); EM fits the weights only, the
		// densities are evaluated on per-thread clones of the components
		emis = 0
		cols = t.Range(1, 2)
		rows = cols * t.Range(1, 2)
		what = fmt.Sprintf("matrix:mixture-of-fixed-vector-iid(%dx%d,steps=%d)", rows, cols, steps)
		mk = func(tr *[]float64) (st.MatrixEstimator, error) {
			hook := generic.EmHook{Value: func(m generic.BasicMixture, i int, likelihood, epsilon float64) {
				if i > 0 {
					*tr = append(*tr, likelihood)
				}
			}}
			fixed := func(shift float64) st.MatrixEstimator {
				ds := make([]st.ScalarPdf, cols)
				for j := range ds {
					d, err := sd.NewNormalDistribution(ad.NewReal64(shift+float64(j)/2), ad.NewReal64(1.5))
					if err != nil {
						panic(err)
					}
					ds[j] = d
				}
				row, err := vd.NewScalarId(ds...)
				if err != nil {
					panic(err)
				}
				iid, err := md.NewVectorIid(row, rows)
				if err != nil {
					panic(err)
				}
				return me.NilEstimator{MatrixPdf: iid}
			}
			return withOptions(me.NewMixtureEstimator([]float64{1, 2}, []st.MatrixEstimator{fixed(-1), fixed(1)}, math.Inf(-1), steps, hook))
		}
	case 4:
		// nested EM: a matrix HMM whose emissions are vector mixtures (each
		// M-step of Baum-Welch runs the inner EM on the weighted rows)
		emis = 0
		inner := t.Range(1, 3)
		what = fmt.Sprintf("matrix:hmm-of-vector-mixtures(cols=%d,steps=%d,inner-steps=%d)", cols, steps, inner)
		mk = func(tr *[]float64) (st.MatrixEstimator, error) {
			hook := generic.BaumWelchHook{Value: func(h generic.BasicHmm, i int, likelihood, epsilon float64) {
				if i > 0 {
					*tr = append(*tr, likelihood)
				}
			}}
			mkMix := func(shift float64) st.VectorEstimator {
				m, err := ve.NewMixtureEstimator([]float64{1, 2}, []st.VectorEstimator{mkRow(shift - 1), mkRow(shift + 1)}, math.Inf(-1), inner)
				if err != nil {
					panic(err)
				}
				return m
			}
			return withOptions(me.NewHmmEstimator(ad.NewDenseFloat64Vector([]float64{0.5, 0.5}), ad.NewDenseFloat64Matrix([]float64{0.75, 0.25, 0.375, 0.625}, 2, 2), nil, nil, nil,
				[]st.VectorEstimator{mkMix(-2), mkMix(2)}, math.Inf(-1), steps, hook))
		}
	case 3:
		// shape HMM: every emission is a matrix distribution over a window of
		// w consecutive rows, estimated through the batch interface
		emis = 1
		w := []int{1, 3, 5}[t.Choose(3)]
		rows = w
		what = fmt.Sprintf("matrix:shape-hmm(window=%d,cols=%d,steps=%d)", w, cols, steps)
		mk = func(tr *[]float64) (st.MatrixEstimator, error) {
			hook := generic.BaumWelchHook{Value: func(h generic.BasicHmm, i int, likelihood, epsilon float64) {
				if i > 0 {
					*tr = append(*tr, likelihood)
				}
			}}
			mkWin := func(a float64) st.MatrixBatchEstimator {
				cs := make([]st.ScalarBatchEstimator, cols)
				for j := range cs {
					cs[j], _ = se.NewCategoricalEstimator([]float64{a, 0.5, 0.5 - a})
				}
				row, err := ve.NewScalarBatchId(cs...)
				if err != nil {
					panic(err)
				}
				rs := make([]st.VectorBatchEstimator, w)
				for i := range rs {
					rs[i] = row
				}
				e, err := me.NewVectorBatchId(rs...)
				if err != nil {
					panic(err)
				}
				return e
			}
			return me.NewShapeHmmEstimator(ad.NewDenseFloat64Vector([]float64{0.5, 0.5}), ad.NewDenseFloat64Matrix([]float64{0.75, 0.25, 0.375, 0.625}, 2, 2), nil,
				[]st.MatrixBatchEstimator{mkWin(0.2), mkWin(0.4)}, math.Inf(-1), steps, hook)
		}
	default:
		m := 2
		what = fmt.Sprintf("matrix:hmm(states=%d,cols=%d,%s,steps=%d)", m, cols, []string{"normal", "categorical"}[emis], steps)
		pi := []float64{0.5, 0.5}
		trm := []float64{0.75, 0.25, 0.375, 0.625}
		mk = func(tr *[]float64) (st.MatrixEstimator, error) {
			hook := generic.BaumWelchHook{Value: func(h generic.BasicHmm, i int, likelihood, epsilon float64) {
				if i > 0 {
					*tr = append(*tr, likelihood)
				}
			}}
			return withOptions(me.NewHmmEstimator(ad.NewDenseFloat64Vector(append([]float64(nil), pi...)), ad.NewDenseFloat64Matrix(append([]float64(nil), trm...), m, m), nil, nil, nil,
				[]st.VectorEstimator{mkRow(-1), mkRow(1)}, math.Inf(-1), steps, hook))
		}
	}
	for r := 0; r < nrec; r++ {
		n := rows
		if kind == 2 || kind == 4 {
			n = t.Range(1, 6) // sequence length
		}
		if kind == 3 {
			// an even number of rows: ShapeHmmAdapter.newObservation feeds its
			// batch estimator (which it never initialises) only for records with
			// an odd number of rows, and then with the whole record instead of a
			// window -- it panics or errors in the sequential run as well, which
			// is no statement about schedules
			n = rows + 1 + 2*t.Range(0, 3)
		}
		v := make([]float64, n*cols)
		for i := range v {
			v[i] = cell()
		}
		recs = append(recs, ad.NewDenseFloat64Matrix(v, n, cols))
	}
	if kind == 0 && t.Bool(1, 2) {
		gamma = drawGamma(t, len(recs))
	}
	c.Logf("%s on %d records, log-weights %v, OptimizeEmissions=%v OptimizeWeights=%v ChunkSize=%d, pool %s", what, len(recs), vecOf(gamma), optE, optW, chunk, cfg)
	for i, r := range recs {
		n, k := r.Dims()
		c.Logf("  record %d (%dx%d): %v", i, n, k, matOf(r))
	}
	before := snapMats(recs, gamma)
	var tr1, tr2 []float64
	e1, err := mk(&tr1)
	if err != nil {
		c.Logf("constructor: %v", err)
		return
	}
	seq := estimateMatrix(e1, recs, gamma, tp.ThreadPool{}, kind != 1 && kind != 5)
	seq.trace = tr1
	if sequentialPanics(c, seq) {
		return
	}
	e2, _ := mk(&tr2)
	var par outcome
	res, abort, pv, site := simRun(c, cfg, func(p tp.ThreadPool) { par = estimateMatrix(e2, recs, gamma, p, kind != 1 && kind != 5) })
	par.trace = tr2
	key := famKind(what)
	if abort != nil {
		abortFail(c, key, cfg, abort, res)
	}
	if pv != nil {
		par.err = fmt.Sprintf("panic in %s: %v", site, pv)
	}
	logSchedule(c, res)
	c.Logf("sequential: %v trace %v %s", seq.params, seq.trace, seq.err)
	c.Logf("parallel:   %v trace %v %s", par.params, par.trace, par.err)
	compare(c, key, cfg, seq, par, 1e-8)
	inputsUnchanged(c, key, before, snapMats(recs, gamma))
	if checkEM && par.err == "" {
		checkMonotone(c, key, par.trace)
	}
	c.Nontriv = true
	c.Sample = map[string]interface{}{"workload": "matrix estimator", "estimator": what, "records": len(recs), "pool": cfg.String(), "jobs_per_executor": res.JobsPerExecutor}
}

/* W8: wrappers and the batch interface -----------------------------------------------------
 *
 * Translation / log-transform wrappers keep one scratch scalar per thread;
 * the batch interface (Initialize, NewObservation from inside pool jobs,
 * GetEstimate) is what the shape HMM and user code drive directly.
 */

func RunWrappers(c *core.Ctx) {
	t := c.Tape
	cfg := drawPool(t)
	kind := t.Choose(4)
	n := t.Range(2, 20)
	x := make([]float64, n)
	for i := range x {
		x[i] = float64(t.Range(1, 40)) / 4
	}
	xv := ad.NewDenseFloat64Vector(x)
	gamma := drawGamma(t, n)
	shift := float64(t.Range(0, 8)) / 4
	what := ""
	var mk func() (st.ScalarEstimator, st.ScalarBatchEstimator)
	switch kind {
	case 0:
		what = "scalar:translation(normal)"
		mk = func() (st.ScalarEstimator, st.ScalarBatchEstimator) {
			b, _ := se.NewNormalEstimator(0, 1, 0.1)
			e, _ := se.NewTranslationEstimator(b, shift)
			return e, e
		}
	case 1:
		what = "scalar:log-transform(normal)"
		mk = func() (st.ScalarEstimator, st.ScalarBatchEstimator) {
			b, _ := se.NewNormalEstimator(0, 1, 0.1)
			e, _ := se.NewLogTransformEstimator(b, shift)
			return e, e
		}
	case 2:
		what = "scalar:translation(exponential)"
		mk = func() (st.ScalarEstimator, st.ScalarBatchEstimator) {
			b, _ := se.NewExponentialEstimator(1, 100)
			e, _ := se.NewTranslationEstimator(b, shift)
			return e, e
		}
	default:
		what = "scalar:log-transform(translation(normal))"
		mk = func() (st.ScalarEstimator, st.ScalarBatchEstimator) {
			b, _ := se.NewNormalEstimator(0, 1, 0.1)
			e1, _ := se.NewTranslationEstimator(b, 0.5)
			e, _ := se.NewLogTransformEstimator(e1, shift)
			return e, e
		}
	}
	batch := t.Bool(1, 2)
	if batch {
		what += "[batch interface]"
	}
	c.Logf("%s on %d observations %v, log-weights %v, constant %v, pool %s", what, n, x, vecOf(gamma), shift, cfg)
	before := snapVecs([]ad.ConstVector{xv, gamma})
	run := func(p tp.ThreadPool) outcome {
		e, b := mk()
		if !batch {
			return estimateScalar(e, xv, gamma, p)
		}
		var o outcome
		var err error
		if pv, site := core.Try(func() {
			if err = b.Initialize(p); err != nil {
				return
			}
			g := p.NewJobGroup()
			if err = p.AddRangeJob(0, n, g, func(i int, p tp.ThreadPool, erf func() error) error {
				if gamma == nil {
					return b.NewObservation(xv.ConstAt(i), nil, p)
				}
				return b.NewObservation(xv.ConstAt(i), gamma.ConstAt(i), p)
			}); err != nil {
				return
			}
			err = p.Wait(g)
		}); pv != nil {
			if _, ok := pv.(tp.Abort); ok {
				panic(pv)
			}
			o.err = fmt.Sprintf("panic in %s: %v", site, pv)
			return o
		}
		if err != nil {
			o.err = err.Error()
			return o
		}
		d, err := b.GetEstimate()
		if err != nil {
			o.err = err.Error()
			return o
		}
		o.params = vecOf(d.GetParameters())
		return o
	}
	seq := run(tp.ThreadPool{})
	if sequentialPanics(c, seq) {
		return
	}
	var par outcome
	res, abort, pv, site := simRun(c, cfg, func(p tp.ThreadPool) { par = run(p) })
	key := what
	if abort != nil {
		abortFail(c, key, cfg, abort, res)
	}
	if pv != nil {
		par.err = fmt.Sprintf("panic in %s: %v", site, pv)
	}
	logSchedule(c, res)
	c.Logf("sequential: %v %s   parallel: %v %s", seq.params, seq.err, par.params, par.err)
	compare(c, key, cfg, seq, par, 1e-9)
	inputsUnchanged(c, key, before, snapVecs([]ad.ConstVector{xv, gamma}))
	c.Nontriv = true
	c.Sample = map[string]interface{}{"workload": "wrapper / batch estimator", "estimator": what, "observations": n, "pool": cfg.String(), "jobs_per_executor": res.JobsPerExecutor}
}

/* W9: logistic regression -----------------------------------------------------------------
 *
 * The sparse L1 variant splits the data between min(threads, n) SAGA workers
 * and averages their iterates, so the estimate depends on the NUMBER of
 * threads by construction.  What the property promises is that, for a given
 * pool size, it does not depend on the interleaving: the same estimator is run
 * under two independently drawn schedules of the same pool size (and, for a
 * pool of one thread, against the sequential pool) and must give bit-equal
 * results, without a data race.
 */

func RunLogisticRegression(c *core.Ctx) {
	t := c.Tape
	cfg := drawPool(t)
	cfg2 := cfg
	cfg2.policy = t.Pick([]int{4, 3, 2, 2, 2, 1})
	cfg2.bufsize = t.Pick([]int{4, 3, 2, 1, 1, 1, 1, 1}) + 1
	dim := t.Range(1, 3) // features without the intercept
	n := t.Range(2, 12)
	sparse := t.Bool(3, 4)
	l1 := []float64{0, 0.5, 2}[t.Choose(3)]
	iters := t.Range(1, 6)
	seed := int64(t.Range(1, 1000))
	// options
	balance := t.Bool(1, 4)
	cw0, cw1 := []float64{1, 1, 2}[t.Choose(3)], []float64{1, 1, 0.5}[t.Choose(3)]
	ssf := []float64{1, 1, 0.5}[t.Choose(3)]
	l2, ti := 0.0, 0.0
	switch t.Choose(4) {
	case 1:
		l2 = 0.5
	case 2:
		ti = 0.5
	}
	recs := make([]ad.ConstVector, n)
	for i := range recs {
		// x_i = (1, features..., label)
		idx := []int{0}
		val := []float64{1}
		for j := 1; j <= dim; j++ {
			if v := t.Range(-4, 4); v != 0 {
				idx = append(idx, j)
				val = append(val, float64(v)/2)
			}
		}
		if t.Bool(1, 2) {
			idx = append(idx, dim+1)
			val = append(val, 1)
		}
		if sparse {
			recs[i] = ad.NewSparseConstFloat64Vector(idx, val, dim+2)
		} else {
			d := make([]float64, dim+2)
			for k, j := range idx {
				d[j] = val[k]
			}
			recs[i] = ad.NewDenseFloat64Vector(d)
		}
	}
	what := fmt.Sprintf("vector:logistic-regression(sparse=%v,l1=%v)", sparse, l1)
	c.Logf("%s dim=%d, %d records, %d epochs, seed %d, balance=%v class weights [%g %g] step factor %g l2=%g ti=%g, pool %s / second schedule %s", what, dim, n, iters, seed, balance, cw0, cw1, ssf, l2, ti, cfg, cfg2)
	for i, r := range recs {
		c.Logf("  record %d: %v", i, vecOf(r))
	}
	before := snapVecs(recs)
	run := func(p tp.ThreadPool) outcome {
		var o outcome
		est, err := ve.NewLogisticRegression(dim+1, sparse)
		if err != nil {
			o.err = err.Error()
			return o
		}
		est.L1Reg = l1
		est.MaxIterations = iters
		est.Epsilon = 0
		est.Seed = seed
		est.Balance = balance
		est.ClassWeights = [2]float64{cw0, cw1}
		est.StepSizeFactor = ssf
		if l1 == 0 {
			est.L2Reg, est.TiReg = l2, ti
		}
		if pv, site := core.Try(func() { err = est.EstimateOnData(recs, nil, p) }); pv != nil {
			if _, ok := pv.(tp.Abort); ok {
				panic(pv)
			}
			o.err = fmt.Sprintf("panic in %s: %v", site, pv)
			return o
		}
		if err != nil {
			o.err = err.Error()
			return o
		}
		o.params = vecOf(est.GetParameters())
		return o
	}
	var a, b outcome
	res, abort, pv, site := simRun(c, cfg, func(p tp.ThreadPool) { a = run(p) })
	key := fmt.Sprintf("vector:logistic-regression(sparse=%v)", sparse)
	if abort != nil {
		abortFail(c, key, cfg, abort, res)
	}
	if pv != nil {
		a.err = fmt.Sprintf("panic in %s: %v", site, pv)
	}
	logSchedule(c, res)
	res2, abort, pv, site := simRun(c, cfg2, func(p tp.ThreadPool) { b = run(p) })
	if abort != nil {
		abortFail(c, key, cfg2, abort, res2)
	}
	if pv != nil {
		b.err = fmt.Sprintf("panic in %s: %v", site, pv)
	}
	c.Logf("schedule 1: %v %s", a.params, a.err)
	c.Logf("schedule 2: %v %s", b.params, b.err)
	if a.class() != b.class() {
		c.Fail("schedule-independence", key+"|outcome-class-differs", "%s: two schedules of a pool of %d threads ended with %q and %q", what, cfg.threads, a.err, b.err)
	}
	if i, ok := sameVec(a.params, b.params, 0); !ok {
		c.Fail("schedule-independence", key+"|estimates-differ", "%s: coefficient %d differs between two schedules of a pool of %d threads (every worker owns its part of the data, so not even the rounding may differ): %v vs %v", what, i, cfg.threads, a.params, b.params)
	}
	inputsUnchanged(c, key, before, snapVecs(recs))
	c.Nontriv = true
	c.Sample = map[string]interface{}{"workload": "logistic regression (SAGA)", "estimator": what, "records": n, "pool": cfg.String(), "jobs_per_executor": res.JobsPerExecutor}
}

/* W10: clones of one estimator prototype -------------------------------------------------
 *
 * ScalarId clones the estimators it is given; handing it the same prototype
 * several times gives several estimators that must not share anything.  Each
 * coordinate has its own data, so an estimator that shares state with its
 * sibling runs its E-step on one column and its M-step on the other.  The
 * hook (copied with the prototype) is told apart by the mixture it reports.
 */

func RunClonedPrototypes(c *core.Ctx) {
	t := c.Tape
	cfg := drawPool(t)
	dim := t.Range(2, 3)
	kind := t.Choose(2) // mixture of normals / mixture of poissons
	steps := t.Range(2, 6)
	nrec := t.Range(3, 14)
	traces := map[generic.BasicMixture][]float64{}
	var order []generic.BasicMixture
	hook := generic.EmHook{Value: func(m generic.BasicMixture, i int, likelihood, epsilon float64) {
		if _, ok := traces[m]; !ok {
			order = append(order, m)
		}
		if i > 0 {
			traces[m] = append(traces[m], likelihood)
		}
	}}
	mkProto := func() (st.ScalarEstimator, error) {
		var es []st.ScalarEstimator
		for i := 0; i < 2; i++ {
			if kind == 0 {
				e, _ := se.NewNormalEstimator(float64(3*i)-1.5, 1, 0.2)
				es = append(es, e)
			} else {
				e, _ := se.NewPoissonEstimator(1 + 3*float64(i))
				es = append(es, e)
			}
		}
		return se.NewMixtureEstimator([]float64{1, 1}, es, math.Inf(-1), steps, hook)
	}
	recs := make([]ad.ConstVector, nrec)
	for r := range recs {
		v := make([]float64, dim)
		for i := range v {
			if kind == 0 {
				// coordinate i lives around 4*i: sharing between coordinates shows
				v[i] = 4*float64(i) + float64(t.Range(-8, 8))/4
			} else {
				v[i] = float64(t.Choose(4) + 3*i)
			}
		}
		recs[r] = ad.NewDenseFloat64Vector(v)
	}
	what := fmt.Sprintf("vector:scalar-id-of-clones(%s mixture x%d, steps=%d)", []string{"normal", "poisson"}[kind], dim, steps)
	key := "vector:scalar-id-of-clones"
	c.Logf("%s on %d records, pool %s", what, nrec, cfg)
	for i, r := range recs {
		c.Logf("  record %d: %v", i, vecOf(r))
	}
	before := snapVecs(recs)
	run := func(p tp.ThreadPool) (outcome, [][]float64) {
		traces = map[generic.BasicMixture][]float64{}
		order = nil
		proto, err := mkProto()
		if err != nil {
			return outcome{err: err.Error()}, nil
		}
		protos := make([]st.ScalarEstimator, dim)
		for i := range protos {
			protos[i] = proto // the same prototype for every coordinate
		}
		est, err := ve.NewScalarId(protos...)
		if err != nil {
			return outcome{err: err.Error()}, nil
		}
		o := estimateVector(est, recs, nil, p)
		o.extra = nil
		var tr [][]float64
		for _, m := range order {
			tr = append(tr, traces[m])
		}
		return o, tr
	}
	seq, _ := run(tp.ThreadPool{})
	if sequentialPanics(c, seq) {
		return
	}
	var par outcome
	var ptr [][]float64
	res, abort, pv, site := simRun(c, cfg, func(p tp.ThreadPool) { par, ptr = run(p) })
	if abort != nil {
		abortFail(c, key, cfg, abort, res)
	}
	if pv != nil {
		par.err = fmt.Sprintf("panic in %s: %v", site, pv)
	}
	logSchedule(c, res)
	c.Logf("sequential: %v %s", seq.params, seq.err)
	c.Logf("parallel:   %v %s traces %v", par.params, par.err, ptr)
	compare(c, key, cfg, seq, par, 1e-8)
	inputsUnchanged(c, key, before, snapVecs(recs))
	if par.err == "" {
		for _, tr := range ptr {
			checkMonotone(c, key, tr)
		}
	}
	c.Nontriv = true
	c.Sample = map[string]interface{}{"workload": "clones of one prototype", "estimator": what, "records": nrec, "pool": cfg.String(), "jobs_per_executor": res.JobsPerExecutor}
}
