package poolsim

import (
	"fmt"
	"math"

	ad "github.com/pbenner/autodiff"
	st "github.com/pbenner/autodiff/statistics"
	"github.com/pbenner/autodiff/statistics/generic"
	se "github.com/pbenner/autodiff/statistics/scalarEstimator"
	ve "github.com/pbenner/autodiff/statistics/vectorEstimator"
	tp "github.com/pbenner/threadpool"
	"verif/sim/core"
)

/* data generators ------------------------------------------------------------------ */

type scalarFam struct {
	name string
	mk   func() (st.ScalarEstimator, error) // fresh estimator with the drawn initial parameters
	data func(t *core.Tape) float64
	// bounds used by the optimality oracle
	closed     bool
	continuous bool
	positive   bool
}

func drawScalarFam(t *core.Tape) scalarFam {
	switch t.Choose(6) {
	case 0:
		mu, sigma := float64(t.Range(-4, 4))/2, float64(t.Range(1, 6))/2
		smin := []float64{0, 1e-3, 0.5, 2}[t.Choose(4)]
		return scalarFam{name: fmt.Sprintf("normal(mu=%g,sigma=%g,sigmaMin=%g)", mu, sigma, smin), closed: true, continuous: true,
			mk:   func() (st.ScalarEstimator, error) { return se.NewNormalEstimator(mu, sigma, smin) },
			data: func(t *core.Tape) float64 { return float64(t.Range(-12, 12)) / 4 }}
	case 1:
		l := float64(t.Range(1, 8)) / 2
		lmax := []float64{math.Inf(1), 100, 1.5}[t.Choose(3)]
		return scalarFam{name: fmt.Sprintf("exponential(lambda=%g,lambdaMax=%g)", l, lmax), closed: true, continuous: true, positive: true,
			mk:   func() (st.ScalarEstimator, error) { return se.NewExponentialEstimator(l, lmax) },
			data: func(t *core.Tape) float64 { return float64(t.Range(1, 16)) / 4 }}
	case 2:
		l := float64(t.Range(1, 8)) / 2
		return scalarFam{name: fmt.Sprintf("poisson(lambda=%g)", l), closed: true,
			mk:   func() (st.ScalarEstimator, error) { return se.NewPoissonEstimator(l) },
			data: func(t *core.Tape) float64 { return float64(t.Pick([]int{3, 3, 2, 2, 1, 1, 1})) }}
	case 3:
		p := float64(t.Range(1, 7)) / 8
		return scalarFam{name: fmt.Sprintf("geometric(p=%g)", p), closed: true,
			mk:   func() (st.ScalarEstimator, error) { return se.NewGeometricEstimator(p) },
			data: func(t *core.Tape) float64 { return float64(t.Pick([]int{3, 3, 2, 2, 1, 1})) }}
	case 4:
		k := t.Range(2, 4)
		th := make([]float64, k)
		for i := range th {
			th[i] = 1 / float64(k)
		}
		return scalarFam{name: fmt.Sprintf("categorical(k=%d)", k), closed: true,
			mk:   func() (st.ScalarEstimator, error) { return se.NewCategoricalEstimator(append([]float64(nil), th...)) },
			data: func(t *core.Tape) float64 { return float64(t.Choose(k)) }}
	default:
		r, p := float64(t.Range(1, 6)), float64(t.Range(1, 7))/8
		return scalarFam{name: fmt.Sprintf("negative-binomial(r=%g,p=%g)", r, p), closed: false,
			mk:   func() (st.ScalarEstimator, error) { return se.NewNegativeBinomialEstimator(r, p) },
			data: func(t *core.Tape) float64 { return float64(t.Pick([]int{2, 3, 2, 2, 1, 1, 1})) }}
	}
}

func drawData(t *core.Tape, f scalarFam, n int) ad.ConstVector {
	x := make([]float64, n)
	mode := t.Pick([]int{6, 2, 2})
	// mode 1: all observations identical; mode 2: few distinct, heavily repeated
	// values; continuous families additionally get non-dyadic decimals (0.1,
	// 0.7, ...) whose squares do not sum exactly
	pool := []float64{f.data(t), f.data(t), f.data(t)}
	if f.continuous && t.Bool(1, 2) {
		for i := range pool {
			pool[i] = float64(t.Range(-30, 30)) / 10
			if f.positive && pool[i] <= 0 {
				pool[i] = 0.1 - pool[i]
			}
		}
	}
	for i := range x {
		switch mode {
		case 0:
			x[i] = f.data(t)
		case 1:
			x[i] = pool[0]
		default:
			x[i] = pool[t.Choose(3)]
		}
	}
	return ad.NewDenseFloat64Vector(x)
}

// log-weights: absent, or drawn (incl. strongly unequal and -Inf entries)
func drawGamma(t *core.Tape, n int) ad.ConstVector {
	if t.Bool(1, 2) {
		return nil
	}
	g := make([]float64, n)
	for i := range g {
		switch t.Pick([]int{6, 2, 1}) {
		case 0:
			g[i] = -float64(t.Range(0, 12)) / 4
		case 1:
			g[i] = -float64(t.Range(20, 60))
		default:
			g[i] = math.Inf(-1)
		}
	}
	g[t.Choose(n)] = 0
	return ad.NewDenseFloat64Vector(g)
}

/* W1: closed-form scalar estimators ----------------------------------------------------- */

func estimateScalar(est st.ScalarEstimator, x, gamma ad.ConstVector, p tp.ThreadPool) outcome {
	var o outcome
	var err error
	if pv, site := core.Try(func() { err = est.EstimateOnData(x, gamma, p) }); pv != nil {
		if _, ok := pv.(tp.Abort); ok {
			panic(pv)
		}
		o.err = fmt.Sprintf("panic in %s: %v", site, pv)
		return o
	}
	if err != nil {
		o.err = err.Error()
		return o
	}
	d, err := est.GetEstimate()
	if err != nil {
		o.err = err.Error()
		return o
	}
	o.params = vecOf(d.GetParameters())
	return o
}

func RunScalarClosedForm(c *core.Ctx, checkOptimality bool) {
	t := c.Tape
	fam := drawScalarFam(t)
	n := t.Pick([]int{1, 2, 2, 2, 2, 1, 1, 1, 1, 1, 1, 1, 1, 1, 1, 1}) + 1
	if t.Bool(1, 5) {
		n = t.Range(17, 40)
	}
	x := drawData(t, fam, n)
	gamma := drawGamma(t, n)
	cfg := drawPool(t)
	c.Logf("%s on %d observations %v, log-weights %v, pool %s", fam.name, n, vecOf(x), vecOf(gamma), cfg)
	before := snapVecs([]ad.ConstVector{x, gamma})
	e1, err := fam.mk()
	if err != nil {
		c.Logf("constructor: %v", err)
		return
	}
	seq := estimateScalar(e1, x, gamma, tp.ThreadPool{})
	if sequentialPanics(c, seq) {
		return
	}
	e2, _ := fam.mk()
	var par outcome
	res, abort, pv, site := simRun(c, cfg, func(p tp.ThreadPool) { par = estimateScalar(e2, x, gamma, p) })
	if abort != nil {
		abortFail(c, "scalar:"+famKind(fam.name), cfg, abort, res)
	}
	if pv != nil {
		par.err = fmt.Sprintf("panic in %s: %v", site, pv)
	}
	logSchedule(c, res)
	c.Logf("sequential: %v %s   parallel: %v %s", seq.params, seq.err, par.params, par.err)
	if gamma != nil && t.Bool(1, 3) {
		off := []float64{800, 1000, -800, -1000, 60, -60}[t.Choose(6)]
		e3, _ := fam.mk()
		sh := estimateScalar(e3, x, shiftGamma(gamma, off), tp.ThreadPool{})
		c.Logf("log-weights + %g: %v %s", off, sh.params, sh.err)
		offsetInvariance(c, "scalar:"+famKind(fam.name), off, seq, sh, 1e-8)
	}
	compare(c, "scalar:"+famKind(fam.name), cfg, seq, par, 1e-9)
	inputsUnchanged(c, "scalar:"+famKind(fam.name), before, snapVecs([]ad.ConstVector{x, gamma}))
	c.Nontriv = n >= 2
	c.Sample = map[string]interface{}{"workload": "closed-form scalar estimator", "family": fam.name, "observations": n, "weighted": gamma != nil, "pool": cfg.String(), "jobs_per_executor": res.JobsPerExecutor}
	if checkOptimality && par.err == "" && fam.closed {
		d, _ := e2.GetEstimate()
		checkOptimal(c, fam, d, x, gamma)
	}
}

func famKind(name string) string {
	for i := 0; i < len(name); i++ {
		if name[i] == '(' {
			return name[:i]
		}
	}
	return name
}

/* W2: scalar mixture, EM ----------------------------------------------------------------- */

type emTrace struct {
	like   []float64
	models []st.ScalarPdf
}

func RunScalarMixture(c *core.Ctx, checkEM bool) {
	t := c.Tape
	k := t.Range(2, 3)
	kind := t.Choose(3) // components: normal, poisson, categorical
	steps := t.Range(1, 5)
	if checkEM {
		steps = t.Range(2, 9)
	}
	n := t.Range(2, 24)
	cfg := drawPool(t)
	var fam scalarFam
	inits := make([]float64, k)
	for i := range inits {
		inits[i] = float64(t.Range(-6, 6)) / 2
	}
	smin := []float64{0.05, 0.5}[t.Choose(2)]
	mkComponents := func() []st.ScalarEstimator {
		es := make([]st.ScalarEstimator, k)
		for i := range es {
			switch kind {
			case 0:
				es[i], _ = se.NewNormalEstimator(inits[i], 1+float64(i)/2, smin)
			case 1:
				es[i], _ = se.NewPoissonEstimator(math.Abs(inits[i]) + 0.5 + float64(i))
			default:
				th := []float64{0.2 + 0.1*float64(i), 0.5, 0.3 - 0.1*float64(i)}
				es[i], _ = se.NewCategoricalEstimator(th)
			}
		}
		return es
	}
	switch kind {
	case 0:
		fam = scalarFam{name: "mixture-of-normals", data: func(t *core.Tape) float64 { return float64(t.Range(-16, 16)) / 4 }}
	case 1:
		fam = scalarFam{name: "mixture-of-poissons", data: func(t *core.Tape) float64 { return float64(t.Pick([]int{2, 3, 2, 2, 1, 1, 1, 1, 1})) }}
	default:
		fam = scalarFam{name: "mixture-of-categoricals", data: func(t *core.Tape) float64 { return float64(t.Choose(3)) }}
	}
	x := drawData(t, fam, n)
	weights := make([]float64, k)
	for i := range weights {
		weights[i] = float64(t.Range(1, 4))
	}
	what := "mixture:" + fam.name
	optE, optW := !t.Bool(1, 5), !t.Bool(1, 5)
	// the running model is exported to a file after every iteration
	saveFile := t.Bool(1, 4)
	c.Logf("%s k=%d, %d EM steps, %d observations %v, OptimizeEmissions=%v OptimizeWeights=%v SaveFile=%v, pool %s", fam.name, k, steps, n, vecOf(x), optE, optW, saveFile, cfg)
	before := snapVecs([]ad.ConstVector{x})
	// the summarised ("discrete") batch variant for integer valued data
	discrete := kind != 0 && t.Bool(1, 2)
	if discrete {
		what += "(summarised data set)"
	}
	run := func(p tp.ThreadPool, tr *emTrace) outcome {
		var o outcome
		var est st.ScalarEstimator
		hook := generic.EmHook{Value: func(m generic.BasicMixture, i int, likelihood, epsilon float64) {
			// publish the model of this iteration (hooks run on the caller's thread)
			if d, err := est.GetEstimate(); err == nil {
				tr.models = append(tr.models, d.CloneScalarPdf())
			}
			if i == 0 {
				return
			}
			tr.like = append(tr.like, likelihood)
		}}
		var err error
		if discrete {
			est, err = se.NewDiscreteMixtureEstimator(append([]float64(nil), weights...), mkComponents(), math.Inf(-1), steps, hook)
		} else {
			est, err = se.NewMixtureEstimator(append([]float64(nil), weights...), mkComponents(), math.Inf(-1), steps, hook)
		}
		if err != nil {
			o.err = err.Error()
			return o
		}
		switch e := est.(type) {
		case *se.MixtureEstimator:
			e.OptimizeEmissions, e.OptimizeWeights = optE, optW
			if saveFile {
				e.SaveFile, e.SaveInterval = scratchFile("mixture.json"), 1
			}
		case *se.DiscreteMixtureEstimator:
			e.OptimizeEmissions, e.OptimizeWeights = optE, optW
			if saveFile {
				e.SaveFile, e.SaveInterval = scratchFile("mixture.json"), 1
			}
		}
		if pv, site := core.Try(func() {
			// SetData + Estimate: for the summarised variant EstimateOnData would
			// resolve to the embedded estimator's SetData and skip the summary
			if err = est.SetData(x, x.Dim()); err == nil {
				err = est.Estimate(nil, p)
			}
		}); pv != nil {
			if _, ok := pv.(tp.Abort); ok {
				panic(pv)
			}
			o.err = fmt.Sprintf("panic in %s: %v", site, pv)
			return o
		}
		if err != nil {
			o.err = err.Error()
			return o
		}
		d, _ := est.GetEstimate()
		o.params = vecOf(d.GetParameters())
		o.trace = tr.like
		// the likelihood of the data under the final model, computed through the
		// public density, joins the comparison
		o.extra = []float64{logLikScalar(d, x, nil)}
		return o
	}
	tr1, tr2 := &emTrace{}, &emTrace{}
	seq := run(tp.ThreadPool{}, tr1)
	if sequentialPanics(c, seq) {
		return
	}
	var par outcome
	res, abort, pv, site := simRun(c, cfg, func(p tp.ThreadPool) { par = run(p, tr2) })
	if abort != nil {
		abortFail(c, what, cfg, abort, res)
	}
	if pv != nil {
		par.err = fmt.Sprintf("panic in %s: %v", site, pv)
	}
	logSchedule(c, res)
	c.Logf("sequential: %v trace %v %s", seq.params, seq.trace, seq.err)
	c.Logf("parallel:   %v trace %v %s", par.params, par.trace, par.err)
	compare(c, what, cfg, seq, par, 1e-8)
	inputsUnchanged(c, what, before, snapVecs([]ad.ConstVector{x}))
	if checkEM && par.err == "" {
		checkMonotone(c, what, par.trace)
		// the likelihood reported at hook call i is the log-likelihood of the
		// model published at call i-1 (the model that iteration evaluated)
		for i := 0; i < len(tr2.like) && i < len(tr2.models); i++ {
			l := logLikScalar(tr2.models[i], x, nil)
			if math.IsNaN(l) || math.IsInf(l, 0) {
				continue
			}
			if !relClose(l, tr2.like[i], 1e-8) {
				c.Fail("hook-likelihood", what+"|reported-likelihood-is-not-that-of-the-model", "%s: hook call %d reported likelihood %.12g, but the log-likelihood of the model of that iteration (published at call %d) is %.12g; data %v", what, i+1, tr2.like[i], i, l, vecOf(x))
			}
		}
		c.Count("hook-likelihood:checked")
	}
	c.Nontriv = true
	c.Sample = map[string]interface{}{"workload": "scalar mixture EM", "components": fam.name, "k": k, "steps": steps, "observations": n, "pool": cfg.String(), "jobs_per_executor": res.JobsPerExecutor, "trace": par.trace}
}

func logLikScalar(d st.ScalarPdf, x, gamma ad.ConstVector) float64 {
	r := ad.NewFloat64(0)
	s := 0.0
	for i := 0; i < x.Dim(); i++ {
		if err := d.LogPdf(r, x.ConstAt(i)); err != nil {
			return math.NaN()
		}
		w := 1.0
		if gamma != nil {
			w = math.Exp(gamma.ConstAt(i).GetFloat64())
		}
		if w == 0 {
			continue
		}
		s += w * r.GetFloat64()
	}
	return s
}

/* W3: hidden Markov model, Baum-Welch ---------------------------------------------------------- */

func RunVectorHmm(c *core.Ctx, checkEM bool) {
	t := c.Tape
	m := t.Range(2, 3)     // states
	kind := t.Choose(2)    // emissions: categorical, normal
	steps := t.Range(1, 4) // Baum-Welch steps
	if checkEM {
		steps = t.Range(2, 9)
	}
	nrec := t.Range(1, 5)
	cfg := drawPool(t)
	pi := make([]float64, m)
	tr := make([]float64, m*m)
	for i := 0; i < m; i++ {
		pi[i] = float64(t.Range(1, 4))
		for j := 0; j < m; j++ {
			tr[i*m+j] = float64(t.Range(1, 4))
		}
	}
	norm := func(v []float64) {
		s := 0.0
		for _, x := range v {
			s += x
		}
		for i := range v {
			v[i] /= s
		}
	}
	norm(pi)
	for i := 0; i < m; i++ {
		norm(tr[i*m : (i+1)*m])
	}
	// state map (tied emissions) and start / final state restrictions
	var stateMap, startStates, finalStates []int
	nem := m
	if t.Bool(1, 4) {
		// two states share emission 0
		stateMap = make([]int, m)
		for i := 1; i < m; i++ {
			stateMap[i] = i - 1
		}
		nem = m - 1
	}
	if t.Bool(1, 5) {
		startStates = []int{t.Choose(m)}
	}
	if t.Bool(1, 5) {
		finalStates = []int{t.Choose(m)}
		if checkEM && c.Avoid["C16-F1"] {
			// open finding C16-F1: with a final state restriction the
			// transition update is not an EM step and the likelihood decreases
			finalStates = nil
		}
	}
	mkEmissions := func() []st.ScalarEstimator {
		es := make([]st.ScalarEstimator, nem)
		for i := range es {
			if kind == 0 {
				th := []float64{0.6 - 0.2*float64(i), 0.1 + 0.1*float64(i), 0.3 + 0.1*float64(i)}
				es[i], _ = se.NewCategoricalEstimator(th)
			} else {
				es[i], _ = se.NewNormalEstimator(float64(2*i)-1, 1, 0.1)
			}
		}
		return es
	}
	recs := make([]ad.ConstVector, nrec)
	for r := range recs {
		l := t.Range(1, 8)
		v := make([]float64, l)
		for i := range v {
			if kind == 0 {
				v[i] = float64(t.Choose(3))
			} else {
				v[i] = float64(t.Range(-12, 12)) / 4
			}
		}
		recs[r] = ad.NewDenseFloat64Vector(v)
	}
	what := []string{"hmm:categorical-emissions", "hmm:normal-emissions"}[kind]
	// estimator options
	chunk := 0
	if t.Bool(1, 3) {
		chunk = t.Range(1, 4)
	}
	// OptimizeTransitions = false is not drawn: it dereferences a nil matrix on
	// every call, sequentially as well (a typed nil *DenseFloat64Matrix in a
	// Matrix interface passes the `tr != nil` test of BaumWelchStep)
	optE, optT := !t.Bool(1, 5), true
	saveFile := t.Bool(1, 5)
	// the transition matrix: free, with tied entries (equality constraints, the
	// tied M-step is solved by a root finder to 1e-8) or hierarchical (blocks
	// of states, transitions between blocks tied)
	variant := t.Pick([]int{4, 1, 1})
	var constraints []generic.EqualityConstraint
	var tree generic.HmmNode
	monoTol := 1e-9
	switch variant {
	case 1:
		i1, j1, i2, j2 := t.Choose(m), t.Choose(m), t.Choose(m), t.Choose(m)
		if i1 != i2 || j1 != j2 {
			constraints = append(constraints, generic.EqualityConstraint{{i1, j1}, {i2, j2}})
		}
		monoTol = 1e-6
		if checkEM && c.Avoid["C16-F2"] {
			// open finding C16-F2: with tied transition entries AND a start state
			// restriction the likelihood decreases
			startStates = nil
		}
	case 2:
		cut := t.Range(1, m-1)
		tree = generic.NewHmmNode(generic.NewHmmLeaf(0, cut), generic.NewHmmLeaf(cut, m))
		if m == 3 {
			// three states: also one leaf per state, flat or nested on either side
			l0, l1, l2 := generic.NewHmmLeaf(0, 1), generic.NewHmmLeaf(1, 2), generic.NewHmmLeaf(2, 3)
			switch t.Choose(4) {
			case 1:
				tree = generic.NewHmmNode(l0, l1, l2)
			case 2:
				tree = generic.NewHmmNode(generic.NewHmmNode(l0, l1), l2)
			case 3:
				tree = generic.NewHmmNode(l0, generic.NewHmmNode(l1, l2))
			}
		}
	}
	// with ChunkSize > 0 every sequence is cut into consecutive pieces of at
	// most that many observations, which are treated as independent sequences
	chunks := recs
	if chunk > 0 {
		chunks = nil
		for _, r := range recs {
			v := vecOf(r)
			for a := 0; a < len(v); a += chunk {
				b := a + chunk
				if b > len(v) {
					b = len(v)
				}
				chunks = append(chunks, ad.NewDenseFloat64Vector(append([]float64(nil), v[a:b]...)))
			}
		}
	}
	what += []string{"", "|constrained", "|hierarchical"}[variant]
	c.Logf("%s states=%d, %d Baum-Welch steps, %d records, ChunkSize=%d OptimizeEmissions=%v OptimizeTransitions=%v stateMap=%v start=%v final=%v constraints=%v tree=%v, pool %s", what, m, steps, nrec, chunk, optE, optT, stateMap, startStates, finalStates, constraints, tree, cfg)
	for r, v := range recs {
		c.Logf("  record %d: %v", r, vecOf(v))
	}
	before := snapVecs(recs)
	var published []st.VectorPdf // models of the parallel run, one per hook call
	run := func(p tp.ThreadPool) outcome {
		var o outcome
		var like []float64
		var est *ve.HmmEstimator
		published = nil
		hook := generic.BaumWelchHook{Value: func(h generic.BasicHmm, i int, likelihood, epsilon float64) {
			if d, err := est.GetEstimate(); err == nil {
				published = append(published, d.CloneVectorPdf())
			}
			if i == 0 {
				return
			}
			like = append(like, likelihood)
		}}
		var err error
		piv, trm := ad.NewDenseFloat64Vector(append([]float64(nil), pi...)), ad.NewDenseFloat64Matrix(append([]float64(nil), tr...), m, m)
		switch variant {
		case 1:
			est, err = ve.NewConstrainedHmmEstimator(piv, trm, stateMap, startStates, finalStates, constraints, mkEmissions(), math.Inf(-1), steps, hook)
		case 2:
			est, err = ve.NewHierarchicalHmmEstimator(piv, trm, stateMap, startStates, finalStates, tree, mkEmissions(), math.Inf(-1), steps, hook)
		default:
			est, err = ve.NewHmmEstimator(piv, trm, stateMap, startStates, finalStates, mkEmissions(), math.Inf(-1), steps, hook)
		}
		if err != nil {
			o.err = err.Error()
			return o
		}
		est.ChunkSize = chunk
		est.OptimizeEmissions = optE
		est.OptimizeTransitions = optT
		if saveFile {
			est.SaveFile, est.SaveInterval = scratchFile("hmm.json"), 1
		}
		if pv, site := core.Try(func() { err = est.EstimateOnData(recs, nil, p) }); pv != nil {
			if _, ok := pv.(tp.Abort); ok {
				panic(pv)
			}
			o.err = fmt.Sprintf("panic in %s: %v", site, pv)
			return o
		}
		if err != nil {
			o.err = err.Error()
			return o
		}
		d, _ := est.GetEstimate()
		o.params = vecOf(d.GetParameters())
		if variant == 1 {
			// the tied M-step is a root finder that stops at 1e-8: the LOG of a
			// negligible probability (exp(-19), exp(-3000)) is ill-conditioned
			// under it; initial and transition probabilities are compared as
			// probabilities
			for i := 0; i < m+m*m && i < len(o.params); i++ {
				o.params[i] = math.Exp(o.params[i])
			}
		}
		o.trace = like
		r := ad.NewFloat64(0)
		for _, x := range recs {
			if err := d.LogPdf(r, x); err == nil {
				o.extra = append(o.extra, r.GetFloat64())
			}
		}
		return o
	}
	seq := run(tp.ThreadPool{})
	c.Count("hmm-transition-matrix:" + []string{"free", "constrained", "hierarchical"}[variant] + map[bool]string{true: ":sequential-run-error", false: ":ok"}[seq.err != ""])
	if sequentialPanics(c, seq) {
		return
	}
	var par outcome
	res, abort, pv, site := simRun(c, cfg, func(p tp.ThreadPool) { par = run(p) })
	if abort != nil {
		abortFail(c, what, cfg, abort, res)
	}
	if pv != nil {
		par.err = fmt.Sprintf("panic in %s: %v", site, pv)
	}
	logSchedule(c, res)
	c.Logf("sequential: %v trace %v %s", seq.params, seq.trace, seq.err)
	c.Logf("parallel:   %v trace %v %s", par.params, par.trace, par.err)
	cmpTol := 1e-8
	if variant == 1 {
		// the tied M-step is a root finder that stops at 1e-8
		cmpTol = 1e-6
	}
	compare(c, what, cfg, seq, par, cmpTol)
	inputsUnchanged(c, what, before, snapVecs(recs))
	if checkEM && par.err == "" {
		checkMonotoneTol(c, what, par.trace, monoTol)
		// the likelihood reported at hook call i is the log-likelihood of the
		// (chunked) data under the model published at call i-1, evaluated
		// here through the public density of that model
		for i := 0; i < len(par.trace) && i < len(published); i++ {
			l, ok := 0.0, true
			r := ad.NewFloat64(0)
			for _, x := range chunks {
				if pv, _ := core.Try(func() {
					if err := published[i].LogPdf(r, x); err != nil {
						ok = false
					}
				}); pv != nil {
					ok = false
				}
				l += r.GetFloat64()
			}
			if !ok || math.IsNaN(l) || math.IsInf(l, 0) {
				continue
			}
			if !relClose(l, par.trace[i], 1e-8) {
				c.Fail("hook-likelihood", what+"|reported-likelihood-is-not-that-of-the-model", "%s (ChunkSize %d): hook call %d reported likelihood %.12g, but the log-likelihood of the data under the model of that iteration (published at call %d) is %.12g", what, chunk, i+1, par.trace[i], i, l)
			}
		}
		c.Count("hook-likelihood:checked")
	}
	c.Nontriv = true
	c.Sample = map[string]interface{}{"workload": "HMM Baum-Welch", "emissions": what, "states": m, "steps": steps, "records": nrec, "pool": cfg.String(), "jobs_per_executor": res.JobsPerExecutor, "trace": par.trace}
}

/* C16 oracles ------------------------------------------------------------------------------------ */

// checkMonotone: the likelihood reported at successive EM iterations never
// decreases (families with an exact M-step).
func checkMonotone(c *core.Ctx, what string, trace []float64) {
	checkMonotoneTol(c, what, trace, 1e-9)
}

func checkMonotoneTol(c *core.Ctx, what string, trace []float64, tol float64) {
	for i := 1; i < len(trace); i++ {
		if math.IsNaN(trace[i]) || math.IsNaN(trace[i-1]) {
			continue
		}
		if trace[i] < trace[i-1]-tol*(1+math.Abs(trace[i-1])) {
			c.Fail("em-monotone", what+"|likelihood-decreased", "%s: the likelihood reported at iteration %d (%.12g) is smaller than at iteration %d (%.12g); trace %v", what, i+1, trace[i], i, trace[i-1], trace)
		}
	}
}

// checkOptimal: no small admissible perturbation of the returned parameters
// increases the weighted log-likelihood.
func checkOptimal(c *core.Ctx, fam scalarFam, d st.ScalarPdf, x, gamma ad.ConstVector) {
	kind := famKind(fam.name)
	checkBounds(c, fam, kind, vecOf(d.GetParameters()), x, gamma)
	// a likelihood without maximiser (all weighted observations identical and
	// no lower bound on sigma) is not judged
	distinct := map[float64]bool{}
	for i := 0; i < x.Dim(); i++ {
		if gamma == nil || !math.IsInf(gamma.ConstAt(i).GetFloat64(), -1) {
			distinct[x.ConstAt(i).GetFloat64()] = true
		}
	}
	if kind == "normal" && len(distinct) < 2 {
		var mu, sigma, smin float64
		fmt.Sscanf(fam.name, "normal(mu=%g,sigma=%g,sigmaMin=%g)", &mu, &sigma, &smin)
		if smin == 0 {
			c.Count("optimality:not-judged-no-maximiser")
			return
		}
	}
	base := logLikScalar(d, x, gamma)
	if math.IsNaN(base) || math.IsInf(base, 0) {
		c.Count("optimality:not-judged-degenerate-likelihood")
		return
	}
	params := d.GetParameters()
	p0 := vecOf(params)
	c.Count("optimality:checked")
	for j := range p0 {
		for _, h := range []float64{1e-2, 1e-4} {
			for _, sgn := range []float64{-1, 1} {
				q := append([]float64(nil), p0...)
				delta := sgn * h * (1 + math.Abs(q[j]))
				q[j] += delta
				if !admissible(fam, kind, q, j) {
					continue
				}
				d2 := d.CloneScalarPdf()
				if err := d2.SetParameters(ad.NewDenseFloat64Vector(q)); err != nil {
					continue
				}
				l2 := logLikScalar(d2, x, gamma)
				if math.IsNaN(l2) {
					continue
				}
				if l2 > base+1e-10*(1+math.Abs(base)) {
					c.Fail("likelihood-maximiser", kind+"|perturbation-increases-likelihood", "%s: the returned parameters %v have weighted log-likelihood %.12g, but changing parameter %d by %+g gives %.12g; data %v, log-weights %v", fam.name, p0, base, j, delta, l2, vecOf(x), vecOf(gamma))
				}
			}
		}
	}
}

// admissible: does the perturbed parameter vector respect the bounds the
// estimator was configured with (parsed from the family description)?
func admissible(fam scalarFam, kind string, q []float64, j int) bool {
	switch kind {
	case "normal":
		var mu, sigma, smin float64
		fmt.Sscanf(fam.name, "normal(mu=%g,sigma=%g,sigmaMin=%g)", &mu, &sigma, &smin)
		if j == 1 && (q[1] <= 0 || q[1] < smin) {
			return false
		}
	case "exponential":
		var l, lmax float64
		fmt.Sscanf(fam.name, "exponential(lambda=%g,lambdaMax=%g)", &l, &lmax)
		if q[0] <= 0 || q[0] > lmax {
			return false
		}
	case "poisson":
		if q[0] <= 0 {
			return false
		}
	case "geometric":
		if q[0] <= 0 || q[0] >= 1 {
			return false
		}
	case "categorical":
		// a single probability cannot be moved alone
		return false
	}
	return true
}

// checkBounds: the returned parameters are finite and within the bounds the
// estimator was configured with.
func checkBounds(c *core.Ctx, fam scalarFam, kind string, p []float64, x, gamma ad.ConstVector) {
	for j, v := range p {
		if math.IsNaN(v) || (math.IsInf(v, 0) && kind != "categorical") {
			c.Fail("parameter-bounds", kind+"|non-finite-parameter", "%s returned parameter %d = %v without error; data %v, log-weights %v", fam.name, j, v, vecOf(x), vecOf(gamma))
		}
	}
	switch kind {
	case "normal":
		var mu, sigma, smin float64
		fmt.Sscanf(fam.name, "normal(mu=%g,sigma=%g,sigmaMin=%g)", &mu, &sigma, &smin)
		if p[1] < smin || p[1] < 0 {
			c.Fail("parameter-bounds", kind+"|below-configured-minimum", "%s returned sigma = %v, below the configured minimum %v; data %v", fam.name, p[1], smin, vecOf(x))
		}
	case "exponential":
		var l, lmax float64
		fmt.Sscanf(fam.name, "exponential(lambda=%g,lambdaMax=%g)", &l, &lmax)
		if p[0] > lmax {
			c.Fail("parameter-bounds", kind+"|above-configured-maximum", "%s returned lambda = %v, above the configured maximum %v; data %v", fam.name, p[0], lmax, vecOf(x))
		}
	}
}

/* open finding C16-F2 ------------------------------------------------------------------------- */

// ProbeConstrainedHmmStartState: Baum-Welch of a constrained HMM (tr[0][1] and
// tr[1][0] tied) with the start state restricted to state 0, fixed normal
// emissions, uniform initial transition matrix: the likelihood reported through
// the hook rises at the first step and falls at every following one.
func ProbeConstrainedHmmStartState(c *core.Ctx) {
	data := [][]float64{{-3, -3}, {-3, -3}, {-3, 0.25}, {-3}, {-3}, {-3, 1}, {-3}}
	recs := []ad.ConstVector{}
	for _, d := range data {
		recs = append(recs, ad.NewDenseFloat64Vector(d))
	}
	es := make([]st.ScalarEstimator, 2)
	es[0], _ = se.NewNormalEstimator(-1, 1, 0.1)
	es[1], _ = se.NewNormalEstimator(1, 1, 0.1)
	like := []float64{}
	hook := generic.BaumWelchHook{Value: func(h generic.BasicHmm, i int, likelihood, epsilon float64) {
		if i > 0 {
			like = append(like, likelihood)
		}
	}}
	cons := []generic.EqualityConstraint{{{0, 1}, {1, 0}}}
	est, err := ve.NewConstrainedHmmEstimator(ad.NewDenseFloat64Vector([]float64{0.5, 0.5}), ad.NewDenseFloat64Matrix([]float64{0.5, 0.5, 0.5, 0.5}, 2, 2), nil, []int{0}, nil, cons, es, math.Inf(-1), 6, hook)
	if err != nil {
		c.Logf("constructor: %v", err)
		return
	}
	est.OptimizeEmissions = false
	if pv, site := core.Try(func() { err = est.EstimateOnData(recs, nil, tp.ThreadPool{}) }); pv != nil || err != nil {
		c.Logf("estimation failed loudly: %v %v %s", err, pv, site)
		return
	}
	c.Logf("likelihood trace: %v", like)
	checkMonotoneTol(c, "hmm:normal-emissions|constrained", like, 1e-6)
}
