package poolsim

import "verif/sim/core"

func runC17(c *core.Ctx) {
	switch c.Scenario {
	case "closed-form":
		RunScalarClosedForm(c, false)
	case "mixture-em":
		RunScalarMixture(c, false)
	case "hmm-baum-welch":
		RunVectorHmm(c, false)
	case "vector-estimators":
		RunVectorEstimators(c)
	case "numeric-estimator":
		RunNumeric(c, false)
	case "component-failure":
		RunComponentFailure(c)
	case "matrix-estimators":
		RunMatrixEstimators(c, false)
	case "wrappers-batch":
		RunWrappers(c)
	case "logistic-regression":
		RunLogisticRegression(c)
	case "cloned-prototypes":
		RunClonedPrototypes(c)
	default:
		panic("unknown scenario " + c.Scenario)
	}
}

func runC16(c *core.Ctx) {
	switch c.Scenario {
	case "closed-form-optimality":
		RunScalarClosedForm(c, true)
	case "mixture-em-monotone":
		RunScalarMixture(c, true)
	case "hmm-monotone":
		RunVectorHmm(c, true)
	case "matrix-em-monotone":
		RunMatrixEstimators(c, true)
	case "vector-closed-form":
		RunVectorEstimators(c)
	case "cloned-prototypes":
		RunClonedPrototypes(c)
	default:
		panic("unknown scenario " + c.Scenario)
	}
}

func init() {
	core.Register(&core.Property{
		ID:     "C17",
		Level:  "exploration",
		Engine: "A: simulated thread pool",
		Scenarios: []core.Scenario{
			{Name: "closed-form", Weight: 3},
			{Name: "mixture-em", Weight: 3},
			{Name: "hmm-baum-welch", Weight: 4},
			{Name: "vector-estimators", Weight: 3},
			{Name: "numeric-estimator", Weight: 1},
			{Name: "component-failure", Weight: 2, Faulty: true},
			{Name: "matrix-estimators", Weight: 3},
			{Name: "wrappers-batch", Weight: 2},
			{Name: "logistic-regression", Weight: 2},
			{Name: "cloned-prototypes", Weight: 1},
		},
		Run:      runC17,
		StepUnit: "scheduling decisions of the simulated pool",
		Rule: "one run = one estimator workload (closed-form scalar estimators of 6 families with optional log-weights; scalar mixtures of normals / Poissons / categoricals under EM; HMMs with categorical or normal emissions and a free, constrained (tied entries) or hierarchical (blocks of states) transition matrix under Baum-Welch with 1..5 records; vector estimators: multivariate normal, scalar iid / id wrappers, vector mixtures; matrix estimators: vector-id, matrix mixtures under EM, matrix HMMs under Baum-Welch; translation / log-transform wrappers through Estimate and through the batch interface (Initialize, NewObservation from inside pool jobs, GetEstimate); sparse and dense logistic regression (SAGA; two schedules of one pool size must agree bit for bit); the numeric estimator, whose objective uses the pool inside Newton / BFGS; and a fault scenario in which one component estimator fails at a logically identified call) executed once with the zero-value (sequential) pool and once with a simulated pool whose size (2..6), channel buffer (1..8), scheduler policy (uniform, spread, hog, main-only, starve, lifo) and every scheduling decision (who receives a submitted job, who runs next at AddJob / job start / job end / Wait entry / Wait poll) are drawn from the tape. Oracles: no data race under the happens-before relation of the real pool (-race build, baton hand-offs hidden, channel / WaitGroup / goroutine-creation edges declared), no deadlock, no step cap, estimates and hook-reported likelihoods equal to the sequential run within 1e-8, caller data unchanged. Non-trivial = at least two observations. Distinct = hash of the executed (executor, job) sequence.",
		Assumptions: []string{
			"schedules are explored at job granularity; sub-job interleavings are covered by the race oracle (autodiff has no lock of its own: two concurrent job bodies either touch disjoint memory and commute, or race and are reported)",
			"EM / Baum-Welch run a fixed number of steps with epsilon = -Inf so that a rounding flip of the convergence test cannot change the iteration count",
			"tolerance 1e-8 relative for reduction-order effects",
		},
		RealCode:     []string{"all of autodiff (statistics/**, generic EM and Baum-Welch, scalar/vector estimators and distributions), unmodified", "from the pool: public API, job groups, error map, job-group counter, all mutexes"},
		Stubs:        []string{"the pool's job channel, worker goroutine scheduling and WaitGroup.Wait (sim/simpool, a fork of github.com/pbenner/threadpool swapped in by a replace directive)"},
		Caps:         map[string]int{"threads": 6, "buffer": 8, "scheduler_steps": 20000, "em_steps": 5, "records": 5},
		QuickRuns:    24000,
		ThoroughRuns: 300000,
		Isolated:     true,
	})
	core.Register(&core.Property{
		ID:     "C16",
		Level:  "exploration",
		Engine: "A: simulated thread pool (hook seam)",
		Scenarios: []core.Scenario{
			{Name: "closed-form-optimality", Weight: 4},
			{Name: "mixture-em-monotone", Weight: 3},
			{Name: "hmm-monotone", Weight: 3},
			{Name: "matrix-em-monotone", Weight: 2},
			{Name: "vector-closed-form", Weight: 2},
			{Name: "cloned-prototypes", Weight: 1},
		},
		Run:      runC16,
		Probes: []core.FindingProbe{
			// Baum-Welch with a final state restriction: a recorded minimal run
			{ID: "C16-F1", Run: func(c *core.Ctx) {
				c.Tape = core.NewReplayTape([]int{1, 1, 0, 0, 0, 0, 0, 0, 0, 0, 0, 0, 0, 0, 0, 0, 0, 0, 0, 0, 0, 0, 1, 0, 0, 1, 11, 0, 1})
				c.Scenario = "hmm-monotone"
				RunVectorHmm(c, true)
			}},
			{ID: "C16-F2", Run: ProbeConstrainedHmmStartState},
		},
		StepUnit: "scheduling decisions of the simulated pool",
		Rule: "same workloads as C17 (scalar closed-form estimators, scalar mixtures incl. the summarised data set, vector HMMs (free, constrained = tied transition entries, hierarchical = blocks of states; the tied M-step is solved by a root finder, so that variant's trace is judged at 1e-6), matrix mixtures / matrix HMMs / matrix HMMs whose emissions are vector mixtures = nested EM), executed under a drawn simulated pool. Closed-form estimators: the weighted log-likelihood L = sum_i exp(gamma_i) log p(x_i; theta), evaluated by the harness through the family's own LogPdf, must not increase for any admissible perturbation theta +- h e_j (h = 1e-2, 1e-4 relative) of the returned parameters. EM / Baum-Welch: the likelihood trace collected through EmHook / BaumWelchHook must be non-decreasing (1e-9 relative). Non-trivial = at least two observations. Distinct = hash of the executed (executor, job) sequence.",
		Assumptions: []string{
			"perturbations respect the bounds the estimator was configured with (SigmaMin, LambdaMax, probabilities in (0,1))",
			"families whose M-step is exact only (normal, Poisson, categorical components / emissions)",
		},
		RealCode:     []string{"estimators, distributions, EM and Baum-Welch drivers, hooks"},
		Stubs:        []string{"the pool's scheduling (sim/simpool)"},
		Caps:         map[string]int{"threads": 6, "em_steps": 5, "observations": 40},
		QuickRuns:    24000,
		ThoroughRuns: 300000,
		Isolated:     true,
	})
}
