// Package poolsim is engine A: estimators and batch evaluators of autodiff run
// unmodified against the simulated thread pool (sim/simpool, swapped in for
// github.com/pbenner/threadpool at the module boundary).  The tape decides pool
// size, buffer size, scheduler policy and every scheduling decision; the
// binary is built with -race, and the happens-before relation the detector
// sees is that of the real pool (see simpool/race_on.go).
package poolsim

import (
	"fmt"
	"math"
	"os"
	"path/filepath"
	"strings"

	ad "github.com/pbenner/autodiff"
	tp "github.com/pbenner/threadpool"
	"verif/sim/core"
)

type poolCfg struct {
	threads, bufsize, policy, victim int
}

func (p poolCfg) String() string {
	return fmt.Sprintf("threads=%d buffer=%d policy=%s victim=%d", p.threads, p.bufsize, policyName(p.policy), p.victim)
}

func policyName(p int) string {
	return []string{"uniform", "spread", "hog", "main-only", "starve", "lifo"}[p]
}

func drawPool(t *core.Tape) poolCfg {
	c := poolCfg{threads: t.Range(2, 6), bufsize: t.Pick([]int{4, 3, 2, 1, 1, 1, 1, 1}) + 1}
	c.policy = t.Pick([]int{4, 3, 2, 2, 2, 1})
	c.victim = t.Range(1, c.threads-1)
	return c
}

// simRun runs f with a simulated pool; it returns the scheduler's result and
// what f panicked with (nil if it returned).
var stepCap = 20000

func simRun(c *core.Ctx, cfg poolCfg, f func(p tp.ThreadPool)) (res tp.Result, abort *tp.Abort, pv interface{}, site string) {
	tape := c.Tape
	tp.SimReset(tp.Config{Choose: tape.Choose, Policy: cfg.policy, Victim: cfg.victim, StepCap: stepCap})
	func() {
		defer func() {
			if r := recover(); r != nil {
				if a, ok := r.(tp.Abort); ok {
					abort = &a
					return
				}
				pv = r
				site = core.PanicSite()
			}
		}()
		pool := tp.New(cfg.threads, cfg.bufsize)
		f(pool)
	}()
	res = tp.SimFinish()
	c.Steps += res.Steps
	c.CountN("sched:job-handoff-to-parked-worker", res.Handoff)
	c.CountN("sched:job-queued-in-buffer", res.Queued)
	c.CountN("probe:job-inline-on-submitter-queue-full", res.Inline)
	c.CountN("probe:nested-wait-inside-worker", res.NestedWaits)
	idle := 0
	for _, j := range res.JobsPerExecutor {
		if j == 0 {
			idle++
		}
	}
	if idle > 0 {
		c.Count("probe:run-with-executor-that-never-got-a-job")
	}
	if len(res.JobsPerExecutor) > 0 && res.JobsPerExecutor[0] == 0 {
		c.Count("probe:main-thread-executed-no-job")
	}
	c.State(res.Hash)
	return
}

func logSchedule(c *core.Ctx, res tp.Result) {
	if !c.Keep {
		return
	}
	names := map[int32]string{tp.EvSubmitHandoff: "submit->handoff", tp.EvSubmitQueued: "submit->buffer", tp.EvSubmitInline: "submit->inline(queue full)",
		tp.EvJobStart: "job-start", tp.EvJobEnd: "job-end", tp.EvWaitEnter: "wait-enter", tp.EvWaitTakesJob: "wait-takes-job", tp.EvWaitBlocks: "wait-blocks",
		tp.EvWaitReturn: "wait-return", tp.EvSwitch: "switch-to", tp.EvWorkerParks: "worker-parks", tp.EvDeadlock: "DEADLOCK", tp.EvStepCap: "STEP-CAP"}
	n := 0
	for _, e := range res.Events {
		if e.Kind == tp.EvSwitch {
			continue
		}
		c.Logf("  [executor %d] %s %d %d", e.Task, names[e.Kind], e.A, e.B)
		if n++; n > 300 {
			c.Logf("  ... %d scheduler events in total", len(res.Events))
			break
		}
	}
}

/* comparison helpers --------------------------------------------------------------- */

func relClose(a, b, tol float64) bool {
	if math.IsNaN(a) && math.IsNaN(b) {
		return true
	}
	if math.IsInf(a, 0) || math.IsInf(b, 0) {
		return a == b
	}
	return math.Abs(a-b) <= tol*(1+math.Abs(a)+math.Abs(b))
}

func vecOf(v ad.ConstVector) []float64 {
	if v == nil {
		return nil
	}
	r := make([]float64, v.Dim())
	for i := range r {
		r[i] = v.ConstAt(i).GetFloat64()
	}
	return r
}

func sameVec(a, b []float64, tol float64) (int, bool) {
	if len(a) != len(b) {
		return -1, false
	}
	for i := range a {
		if !relClose(a[i], b[i], tol) {
			return i, false
		}
	}
	return 0, true
}

type outcome struct {
	err    string
	params []float64
	trace  []float64 // likelihoods reported through hooks
	extra  []float64
}

func (o outcome) class() string {
	if o.err != "" {
		return "error"
	}
	return "ok"
}

// compare: the parallel outcome must equal the sequential one.
func compare(c *core.Ctx, what string, cfg poolCfg, seq, par outcome, tol float64) {
	c.Count("outcome-of-the-sequential-run:" + seq.class())
	if seq.class() != par.class() && (boundaryError(seq.err) || boundaryError(par.err)) {
		// the maximiser lies on the boundary of the parameter space (all
		// observations identical with no lower bound on sigma, p = 1, ...):
		// whether the distribution constructor accepts the rounded value or
		// rejects the exact one is a reduction-order effect at a singular
		// point, not a schedule dependence
		c.Count("not-judged:maximiser-on-the-boundary-of-the-parameter-space")
		return
	}
	if seq.class() != par.class() {
		c.Fail("schedule-independence", what+"|outcome-class-differs", "%s: sequential run ended with %q, the run with pool (%s) with %q", what, seq.err, cfg, par.err)
	}
	if seq.err != "" {
		return
	}
	sameParams := func(a, b []float64) (int, bool) {
		if len(what) >= 13 && what[:13] == "scalar:normal" && len(a) == 2 && len(b) == 2 {
			// sigma = sqrt(E[x^2] - E[x]^2): cancellation amplifies the rounding
			// of the reductions, so sigma is compared through the variance on
			// the scale of the second moment (a reduction-order effect)
			if !relClose(a[0], b[0], tol) {
				return 0, false
			}
			if math.Abs(a[1]*a[1]-b[1]*b[1]) > 1e-9*(1+a[0]*a[0]+a[1]*a[1]) {
				return 1, false
			}
			return 0, true
		}
		return sameVec(a, b, tol)
	}
	if i, ok := sameParams(seq.params, par.params); !ok {
		c.Fail("schedule-independence", what+"|estimates-differ", "%s: parameter %d differs between the sequential run and the run with pool (%s): sequential %v, parallel %v", what, i, cfg, seq.params, par.params)
	}
	if i, ok := sameVec(seq.trace, par.trace, tol); !ok {
		c.Fail("schedule-independence", what+"|likelihood-trace-differs", "%s: likelihood reported at hook call %d differs between the sequential run and the run with pool (%s): sequential %v, parallel %v", what, i, cfg, seq.trace, par.trace)
	}
	if i, ok := sameVec(seq.extra, par.extra, tol); !ok {
		c.Fail("schedule-independence", what+"|values-differ", "%s: value %d differs between the sequential run and the run with pool (%s): sequential %v, parallel %v", what, i, cfg, seq.extra, par.extra)
	}
}

// scratchFile: a file name in a per-process scratch directory (for the
// SaveFile / Trace options of the EM estimators), removed at exit.
var scratchDir string

func scratchFile(name string) string {
	if scratchDir == "" {
		d, err := os.MkdirTemp("", "verif-pool-")
		if err != nil {
			panic(err)
		}
		scratchDir = d
		core.ExitHooks = append(core.ExitHooks, func() { os.RemoveAll(scratchDir) })
	}
	return filepath.Join(scratchDir, name)
}

// shiftGamma adds a common offset to all log-weights (weights scaled by a
// common factor): the weighted maximum-likelihood estimate does not change.
func shiftGamma(gamma ad.ConstVector, off float64) ad.ConstVector {
	g := vecOf(gamma)
	for i := range g {
		g[i] += off // -Inf stays -Inf
	}
	return ad.NewDenseFloat64Vector(g)
}

// offsetInvariance compares the estimate under log-weights gamma with the one
// under gamma + off.
func offsetInvariance(c *core.Ctx, what string, off float64, base, shifted outcome, tol float64) {
	c.Count("weights-offset:checked")
	if base.class() != shifted.class() {
		if boundaryError(base.err) || boundaryError(shifted.err) {
			// a singular maximiser: see compare()
			if base.err != "" {
				c.Count("not-judged:maximiser-on-the-boundary-of-the-parameter-space")
				return
			}
		}
		c.Fail("weights-scale-invariance", what+"|common-offset-changes-outcome", "%s: with the log-weights as drawn the estimator ended with %q, with the same log-weights plus %g (all weights times a common factor) with %q", what, base.err, off, shifted.err)
	}
	if base.err != "" {
		return
	}
	if i, ok := sameVec(base.params, shifted.params, tol); !ok {
		c.Fail("weights-scale-invariance", what+"|common-offset-changes-estimate", "%s: parameter %d changes when %g is added to all log-weights (all weights times a common factor): %v -> %v", what, i, off, base.params, shifted.params)
	}
}

// sequentialPanics: a workload on which the library panics already without a
// pool says nothing about schedules (and the same panic on a pool worker
// would take the process down); it is counted and not run in parallel.
func sequentialPanics(c *core.Ctx, seq outcome) bool {
	if strings.HasPrefix(seq.err, "panic in ") {
		c.Logf("sequential run: %s", seq.err)
		c.Count("not-judged:library-panics-in-the-sequential-run-as-well")
		return true
	}
	return false
}

func boundaryError(e string) bool {
	return strings.Contains(e, "invalid") || strings.Contains(e, "positive definite") || strings.Contains(e, "singular")
}

func abortFail(c *core.Ctx, what string, cfg poolCfg, a *tp.Abort, res tp.Result) {
	logSchedule(c, res)
	if a.Deadlock {
		c.Fail("no-deadlock", what+"|deadlock", "%s with pool (%s): no executor can run any more but the main thread has not returned (%d scheduler steps)", what, cfg, res.Steps)
	}
	c.Fail("no-deadlock", what+"|step-cap", "%s with pool (%s): still running after %d scheduler steps", what, cfg, res.Steps)
}

// snapshot of caller data for the inputs-unchanged invariant
func snapVecs(vs []ad.ConstVector) [][]float64 {
	r := make([][]float64, len(vs))
	for i, v := range vs {
		r[i] = vecOf(v)
	}
	return r
}

func inputsUnchanged(c *core.Ctx, what string, before, after [][]float64) {
	for i := range before {
		if j, ok := sameVec(before[i], after[i], 0); !ok {
			c.Fail("inputs-unchanged", what+"|caller-data-modified", "%s modified the caller's data vector %d at element %d: %v -> %v", what, i, j, before[i], after[i])
		}
	}
}
