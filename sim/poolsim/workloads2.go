package poolsim

import (
	"errors"
	"fmt"
	"math"

	ad "github.com/pbenner/autodiff"
	st "github.com/pbenner/autodiff/statistics"
	"github.com/pbenner/autodiff/statistics/generic"
	sd "github.com/pbenner/autodiff/statistics/scalarDistribution"
	se "github.com/pbenner/autodiff/statistics/scalarEstimator"
	ve "github.com/pbenner/autodiff/statistics/vectorEstimator"
	tp "github.com/pbenner/threadpool"
	"verif/sim/core"
)

/* W4: vector estimators ------------------------------------------------------------------ */

// spreadRecords: 2*dim records c +- 2 e_i around a drawn centre, so that the
// sample covariance of any data set containing them is well conditioned (an
// ill-conditioned covariance amplifies reduction-order rounding arbitrarily
// and says nothing about schedules)
func spreadRecords(t *core.Tape, dim int) []ad.ConstVector {
	c := make([]float64, dim)
	for i := range c {
		c[i] = float64(t.Range(-8, 8)) / 4
	}
	recs := []ad.ConstVector{}
	for i := 0; i < dim; i++ {
		for _, s := range []float64{-2, 2} {
			v := append([]float64(nil), c...)
			v[i] += s
			recs = append(recs, ad.NewDenseFloat64Vector(v))
		}
	}
	return recs
}

func drawRecords(t *core.Tape, nrec, dim int, integer bool, k int) []ad.ConstVector {
	recs := make([]ad.ConstVector, nrec)
	for r := range recs {
		v := make([]float64, dim)
		for i := range v {
			if integer {
				v[i] = float64(t.Choose(k))
			} else {
				v[i] = float64(t.Range(-12, 12)) / 4
			}
		}
		recs[r] = ad.NewDenseFloat64Vector(v)
	}
	return recs
}

func estimateVector(est st.VectorEstimator, x []ad.ConstVector, gamma ad.ConstVector, p tp.ThreadPool) outcome {
	var o outcome
	var err error
	if pv, site := core.Try(func() { err = est.EstimateOnData(x, gamma, p) }); pv != nil {
		if _, ok := pv.(tp.Abort); ok {
			panic(pv)
		}
		o.err = fmt.Sprintf("panic in %s: %v", site, pv)
		return o
	}
	if err != nil {
		o.err = err.Error()
		return o
	}
	d, err := est.GetEstimate()
	if err != nil {
		o.err = err.Error()
		return o
	}
	o.params = vecOf(d.GetParameters())
	if _, isMixture := est.(*ve.MixtureEstimator); isMixture {
		// the covariance of a mixture component can be close to singular for
		// any data; densities evaluated through it amplify rounding without
		// bound and are not compared
		return o
	}
	r := ad.NewFloat64(0)
	for _, rec := range x {
		if pv, _ := core.Try(func() { err = d.LogPdf(r, rec) }); pv == nil && err == nil {
			o.extra = append(o.extra, r.GetFloat64())
		}
	}
	return o
}

func RunVectorEstimators(c *core.Ctx) {
	t := c.Tape
	cfg := drawPool(t)
	kind := t.Choose(4)
	dim := t.Range(1, 3)
	nrec := t.Pick([]int{1, 2, 2, 2, 2, 1, 1, 1, 1, 1, 1, 1}) + 1
	var mk func() (st.VectorEstimator, error)
	var recs []ad.ConstVector
	what := ""
	switch kind {
	case 0:
		what = fmt.Sprintf("vector:normal(dim=%d)", dim)
		sig := make([]float64, dim*dim)
		for i := 0; i < dim; i++ {
			sig[i*dim+i] = 1
		}
		smin := []float64{1e-3, 0.5}[t.Choose(2)]
		mk = func() (st.VectorEstimator, error) {
			return ve.NewNormalEstimator(make([]float64, dim), append([]float64(nil), sig...), smin)
		}
		recs = append(spreadRecords(t, dim), drawRecords(t, nrec, dim, false, 0)...)
	case 1:
		what = fmt.Sprintf("vector:scalar-iid(poisson,dim=%d)", dim)
		mk = func() (st.VectorEstimator, error) {
			e, _ := se.NewPoissonEstimator(1.5)
			return ve.NewScalarIid(e, dim)
		}
		// ScalarIid flattens its records into one observation vector whose
		// length must equal dim: exactly one record, and no per-record weights
		recs = drawRecords(t, 1, dim, true, 5)
	case 2:
		what = fmt.Sprintf("vector:scalar-id(normal..,dim=%d)", dim)
		mk = func() (st.VectorEstimator, error) {
			es := make([]st.ScalarEstimator, dim)
			for i := range es {
				es[i], _ = se.NewNormalEstimator(float64(i), 1, 0.1)
			}
			return ve.NewScalarId(es...)
		}
		recs = drawRecords(t, nrec, dim, false, 0)
	default:
		k := 2
		steps := t.Range(1, 3)
		optE, optW := !t.Bool(1, 5), !t.Bool(1, 5)
		what = fmt.Sprintf("vector:mixture(normal x%d,dim=%d,steps=%d)", k, dim, steps)
		sig := make([]float64, dim*dim)
		for i := 0; i < dim; i++ {
			sig[i*dim+i] = 1
		}
		mk = func() (st.VectorEstimator, error) {
			es := make([]st.VectorEstimator, k)
			for i := range es {
				mu := make([]float64, dim)
				for j := range mu {
					mu[j] = float64(2*i) - 1
				}
				es[i], _ = ve.NewNormalEstimator(mu, append([]float64(nil), sig...), 0.2)
			}
			m, err := ve.NewMixtureEstimator([]float64{1, 2}, es, math.Inf(-1), steps)
			if err == nil {
				m.OptimizeEmissions, m.OptimizeWeights = optE, optW
			}
			return m, err
		}
		recs = append(append(spreadRecords(t, dim), spreadRecords(t, dim)...), drawRecords(t, nrec, dim, false, 0)...)
	}
	var gamma ad.ConstVector
	if kind != 3 && kind != 1 {
		gamma = drawGamma(t, len(recs))
		if kind == 0 && gamma != nil {
			// the spread records keep full weight (see spreadRecords)
			g := vecOf(gamma)
			for i := 0; i < 2*dim && i < len(g); i++ {
				g[i] = 0
			}
			gamma = ad.NewDenseFloat64Vector(g)
		}
	}
	c.Logf("%s on %d records, log-weights %v, pool %s", what, len(recs), vecOf(gamma), cfg)
	for i, r := range recs {
		c.Logf("  record %d: %v", i, vecOf(r))
	}
	before := snapVecs(append(append([]ad.ConstVector{}, recs...), gamma))
	e1, err := mk()
	if err != nil {
		c.Logf("constructor: %v", err)
		return
	}
	seq := estimateVector(e1, recs, gamma, tp.ThreadPool{})
	if sequentialPanics(c, seq) {
		return
	}
	e2, _ := mk()
	var par outcome
	res, abort, pv, site := simRun(c, cfg, func(p tp.ThreadPool) { par = estimateVector(e2, recs, gamma, p) })
	key := famKind(what)
	if abort != nil {
		abortFail(c, key, cfg, abort, res)
	}
	if pv != nil {
		par.err = fmt.Sprintf("panic in %s: %v", site, pv)
	}
	logSchedule(c, res)
	c.Logf("sequential: %v %s", seq.params, seq.err)
	c.Logf("parallel:   %v %s", par.params, par.err)
	if gamma != nil && t.Bool(1, 3) {
		off := []float64{800, 1000, -800, -1000, 60, -60}[t.Choose(6)]
		e3, _ := mk()
		sh := estimateVector(e3, recs, shiftGamma(gamma, off), tp.ThreadPool{})
		seqNoExtra := seq
		sh.extra, seqNoExtra.extra = nil, nil
		c.Logf("log-weights + %g: %v %s", off, sh.params, sh.err)
		offsetInvariance(c, key, off, seqNoExtra, sh, 1e-6)
	}
	compare(c, key, cfg, seq, par, 1e-7)
	inputsUnchanged(c, key, before, snapVecs(append(append([]ad.ConstVector{}, recs...), gamma)))
	c.Nontriv = len(recs) >= 2
	c.Sample = map[string]interface{}{"workload": "vector estimator", "estimator": what, "records": len(recs), "pool": cfg.String(), "jobs_per_executor": res.JobsPerExecutor}
}

/* W5: numeric estimator (the pool is used inside an objective that an optimizer calls repeatedly) */

func RunNumeric(c *core.Ctx, checkStationary bool) {
	t := c.Tape
	stepCap = 2000000
	defer func() { stepCap = 20000 }()
	cfg := drawPool(t)
	n := t.Range(6, 20)
	method := []string{"newton", "bfgs"}[t.Choose(2)]
	fam := t.Choose(2)
	x := make([]float64, n)
	var mkPdf func() st.ScalarPdf
	what := ""
	switch fam {
	case 0:
		what = "numeric:gamma(" + method + ")"
		for i := range x {
			x[i] = float64(t.Range(1, 24)) / 4
		}
		mkPdf = func() st.ScalarPdf {
			d, _ := sd.NewGammaDistribution(ad.NewReal64(2), ad.NewReal64(1))
			return d
		}
	default:
		what = "numeric:normal(" + method + ")"
		for i := range x {
			x[i] = float64(t.Range(-12, 12)) / 4
		}
		x[0], x[1] = -1.25, 2.5 // never all identical
		mkPdf = func() st.ScalarPdf {
			d, _ := sd.NewNormalDistribution(ad.NewReal64(0.5), ad.NewReal64(1.5))
			return d
		}
	}
	xv := ad.NewDenseFloat64Vector(x)
	// moderate log-weights only: with a few observations carrying all the
	// weight the likelihood degenerates (sigma -> 0) and has no maximiser
	var gamma ad.ConstVector
	if t.Bool(1, 2) {
		g := make([]float64, n)
		for i := range g {
			g[i] = -float64(t.Range(0, 8)) / 4
		}
		gamma = ad.NewDenseFloat64Vector(g)
	}
	c.Logf("%s on %d observations %v, log-weights %v, pool %s", what, n, x, vecOf(gamma), cfg)
	run := func(p tp.ThreadPool) outcome {
		est, err := se.NewNumericEstimator(mkPdf())
		if err != nil {
			return outcome{err: err.Error()}
		}
		est.Method = method
		est.MaxIterations = 60
		est.Epsilon = 1e-9
		o := estimateScalar(est, xv, gamma, p)
		if o.err == "" {
			// the likelihood can be flat along a ridge (gamma: shape and rate
			// grow together), where the optimizer stops at reduction-order
			// dependent points; what must agree is the likelihood reached
			if d, err := est.GetEstimate(); err == nil {
				o.extra = []float64{logLikScalar(d, xv, gamma)}
			}
			o.params = nil
		}
		return o
	}
	before := snapVecs([]ad.ConstVector{xv, gamma})
	seq := run(tp.ThreadPool{})
	if sequentialPanics(c, seq) {
		return
	}
	var par outcome
	res, abort, pv, site := simRun(c, cfg, func(p tp.ThreadPool) { par = run(p) })
	if abort != nil {
		abortFail(c, what, cfg, abort, res)
	}
	if pv != nil {
		par.err = fmt.Sprintf("panic in %s: %v", site, pv)
	}
	logSchedule(c, res)
	c.Logf("sequential: %v %s", seq.params, seq.err)
	c.Logf("parallel:   %v %s", par.params, par.err)
	// an optimizer amplifies reduction-order noise: compare loosely
	// Newton converges quadratically, so the likelihood reached must agree
	// closely; BFGS ends where its line search gives up ("line search failed"
	// is deliberately ignored by the estimator), a point that depends on
	// rounding at the 1e-3 level
	tol := 1e-6
	if method == "bfgs" {
		// only the outcome class (and race / deadlock freedom) is judged
		seq.extra, par.extra = nil, nil
		c.Count("not-judged:bfgs-end-point-of-the-numeric-estimator")
	}
	compare(c, what, cfg, seq, par, tol)
	inputsUnchanged(c, what, before, snapVecs([]ad.ConstVector{xv, gamma}))
	c.Nontriv = true
	c.Sample = map[string]interface{}{"workload": "numeric estimator", "estimator": what, "observations": n, "pool": cfg.String(), "jobs_per_executor": res.JobsPerExecutor}
}

/* W6: component failure ---------------------------------------------------------------------------
 *
 * The analogue of a failing node: one emission / component estimator returns
 * an error at a logically identified call (component c, iteration k -- never
 * "the n-th call", which would be schedule dependent).  The run must end, must
 * not race, and its outcome class must equal that of the sequential run under
 * the same logical fault.
 */

var errComponent = errors.New("injected component failure")

type failingEstimator struct {
	st.ScalarEstimator
	failAt int // Estimate call (0-based) of this component that fails, -1 never
	calls  *int
}

func (f failingEstimator) Estimate(gamma ad.ConstVector, p tp.ThreadPool) error {
	k := *f.calls
	*f.calls = k + 1
	if k == f.failAt {
		return errComponent
	}
	return f.ScalarEstimator.Estimate(gamma, p)
}

func (f failingEstimator) CloneScalarEstimator() st.ScalarEstimator {
	n := 0
	return failingEstimator{f.ScalarEstimator.CloneScalarEstimator(), f.failAt, &n}
}

func (f failingEstimator) EstimateOnData(x, gamma ad.ConstVector, p tp.ThreadPool) error {
	if err := f.SetData(x, x.Dim()); err != nil {
		return err
	}
	return f.Estimate(gamma, p)
}

// RunZeroProbabilityRecord: the E-step fails for one logically identified
// record (a record that has probability zero under every path).
func RunZeroProbabilityRecord(c *core.Ctx) {
	t := c.Tape
	cfg := drawPool(t)
	// two states that never switch, state i emits only symbol i: a constant
	// record is fine, a record that changes its symbol has no path of
	// non-zero probability although every single observation is possible
	m := 2
	steps := t.Range(1, 3)
	nrec := t.Range(1, 5)
	bad := t.Choose(nrec)
	recs := make([]ad.ConstVector, nrec)
	for r := range recs {
		l := t.Range(2, 6)
		v := make([]float64, l)
		sym := float64(t.Choose(2))
		for i := range v {
			v[i] = sym
		}
		if r == bad {
			k := 1 + t.Choose(l-1)
			v[k] = 1 - v[k-1]
		}
		recs[r] = ad.NewDenseFloat64Vector(v)
	}
	what := "zero-probability-record:hmm"
	c.Logf("%s: %d steps, %d records, record %d has no path of non-zero probability, pool %s", what, steps, nrec, bad, cfg)
	for r, v := range recs {
		c.Logf("  record %d: %v", r, vecOf(v))
	}
	c.Count("fault:zero-probability-record")
	run := func(p tp.ThreadPool) outcome {
		pi := []float64{0.5, 0.5}
		tr := []float64{1, 0, 0, 1}
		es := make([]st.ScalarEstimator, m)
		es[0], _ = se.NewCategoricalEstimator([]float64{1, 0})
		es[1], _ = se.NewCategoricalEstimator([]float64{0, 1})
		est, e := ve.NewHmmEstimator(ad.NewDenseFloat64Vector(pi), ad.NewDenseFloat64Matrix(tr, m, m), nil, nil, nil, es, math.Inf(-1), steps)
		if e != nil {
			return outcome{err: e.Error()}
		}
		var err error
		if pv, site := core.Try(func() { err = est.EstimateOnData(recs, nil, p) }); pv != nil {
			if _, ok := pv.(tp.Abort); ok {
				panic(pv)
			}
			return outcome{err: fmt.Sprintf("panic in %s: %v", site, pv)}
		}
		if err != nil {
			return outcome{err: err.Error()}
		}
		d, _ := est.GetEstimate()
		return outcome{params: vecOf(d.GetParameters())}
	}
	seq := run(tp.ThreadPool{})
	if sequentialPanics(c, seq) {
		return
	}
	var par outcome
	res, abort, pv, site := simRun(c, cfg, func(p tp.ThreadPool) { par = run(p) })
	if abort != nil {
		abortFail(c, what, cfg, abort, res)
	}
	if pv != nil {
		par.err = fmt.Sprintf("panic in %s: %v", site, pv)
	}
	logSchedule(c, res)
	c.Logf("sequential: %v %q", seq.params, seq.err)
	c.Logf("parallel:   %v %q", par.params, par.err)
	compare(c, what, cfg, seq, par, 1e-8)
	c.Nontriv = true
	c.Sample = map[string]interface{}{"workload": what, "bad_record": bad, "pool": cfg.String(), "sequential": seq.class(), "parallel": par.class()}
}

func RunComponentFailure(c *core.Ctx) {
	t := c.Tape
	if t.Bool(1, 3) {
		RunZeroProbabilityRecord(c)
		return
	}
	cfg := drawPool(t)
	hmm := t.Bool(1, 2)
	k := t.Range(2, 3)
	steps := t.Range(2, 4)
	failComp := t.Choose(k)
	failAt := t.Choose(steps)
	mk := func() []st.ScalarEstimator {
		es := make([]st.ScalarEstimator, k)
		for i := range es {
			e, _ := se.NewNormalEstimator(float64(2*i)-1, 1, 0.2)
			es[i] = e
			if i == failComp {
				n := 0
				es[i] = failingEstimator{e, failAt, &n}
			}
		}
		return es
	}
	what := "component-failure:mixture"
	if hmm {
		what = "component-failure:hmm"
	}
	nrec := t.Range(1, 4)
	recs := make([]ad.ConstVector, nrec)
	all := []float64{}
	for r := range recs {
		l := t.Range(2, 7)
		v := make([]float64, l)
		for i := range v {
			v[i] = float64(t.Range(-12, 12)) / 4
		}
		all = append(all, v...)
		recs[r] = ad.NewDenseFloat64Vector(v)
	}
	c.Logf("%s: %d components, component %d fails at its Estimate call %d, %d steps, pool %s", what, k, failComp, failAt, steps, cfg)
	c.Count("fault:component-estimate-error")
	run := func(p tp.ThreadPool) outcome {
		var o outcome
		var err error
		if hmm {
			pi := make([]float64, k)
			tr := make([]float64, k*k)
			for i := range pi {
				pi[i] = 1 / float64(k)
				for j := 0; j < k; j++ {
					tr[i*k+j] = 1 / float64(k)
				}
			}
			est, e := ve.NewHmmEstimator(ad.NewDenseFloat64Vector(pi), ad.NewDenseFloat64Matrix(tr, k, k), nil, nil, nil, mk(), math.Inf(-1), steps)
			if e != nil {
				return outcome{err: e.Error()}
			}
			if pv, site := core.Try(func() { err = est.EstimateOnData(recs, nil, p) }); pv != nil {
				if _, ok := pv.(tp.Abort); ok {
					panic(pv)
				}
				return outcome{err: fmt.Sprintf("panic in %s: %v", site, pv)}
			}
			if err != nil {
				return outcome{err: err.Error()}
			}
			d, _ := est.GetEstimate()
			o.params = vecOf(d.GetParameters())
		} else {
			est, e := se.NewMixtureEstimator(nil, mk(), math.Inf(-1), steps, generic.EmHook{})
			if e != nil {
				return outcome{err: e.Error()}
			}
			x := ad.NewDenseFloat64Vector(all)
			if pv, site := core.Try(func() { err = est.EstimateOnData(x, nil, p) }); pv != nil {
				if _, ok := pv.(tp.Abort); ok {
					panic(pv)
				}
				return outcome{err: fmt.Sprintf("panic in %s: %v", site, pv)}
			}
			if err != nil {
				return outcome{err: err.Error()}
			}
			d, _ := est.GetEstimate()
			o.params = vecOf(d.GetParameters())
		}
		return o
	}
	seq := run(tp.ThreadPool{})
	if sequentialPanics(c, seq) {
		return
	}
	var par outcome
	res, abort, pv, site := simRun(c, cfg, func(p tp.ThreadPool) { par = run(p) })
	if abort != nil {
		abortFail(c, what, cfg, abort, res)
	}
	if pv != nil {
		par.err = fmt.Sprintf("panic in %s: %v", site, pv)
	}
	logSchedule(c, res)
	c.Logf("sequential: %v %q", seq.params, seq.err)
	c.Logf("parallel:   %v %q", par.params, par.err)
	// narrow relaxation: only the outcome class (and, if both succeed, the estimates)
	compare(c, what, cfg, seq, par, 1e-8)
	c.Nontriv = true
	c.Sample = map[string]interface{}{"workload": what, "fails": fmt.Sprintf("component %d at call %d", failComp, failAt), "pool": cfg.String(), "sequential": seq.class(), "parallel": par.class()}
}
