module verif

go 1.21

require github.com/pbenner/autodiff v0.0.0

require github.com/pbenner/threadpool v0.0.0-20191122191339-0302c226b91e

replace github.com/pbenner/autodiff => /repo

replace github.com/pbenner/threadpool => ./sim/simpool
