#!/usr/bin/env python3
"""tools/confirm_mutant.py <src-dir> <property> <seeded-id> [--skip-suite]

Confirms a seeded change in a fresh scratch worktree of /repo's HEAD (outside
/repo and /verif, removed afterwards):
  1. demo passes on the clean tree
  2. patch applies (3-way if needed), tree builds, demo FAILS
  3. the whole existing test suite passes with the patch (algorithm/adam does
     not build at the pinned baseline either and is ignored)
and, if all of that holds, stores /verif/seeded/<seeded-id>/{patch.diff (re-diffed
against HEAD), demo, meta.json}.
"""
import json, os, re, shutil, subprocess, sys, tempfile, time

ENV = dict(os.environ, GOFLAGS="-mod=mod", GOPROXY="off", GOSUMDB="off", GOTOOLCHAIN="local")

def sh(cmd, cwd, timeout=1800):
    p = subprocess.run(cmd, shell=True, cwd=cwd, env=ENV, stdout=subprocess.PIPE, stderr=subprocess.STDOUT, text=True, timeout=timeout)
    return p.returncode, p.stdout

def main():
    src, prop, sid = sys.argv[1], sys.argv[2], sys.argv[3]
    skip_suite = "--skip-suite" in sys.argv
    readme = open(os.path.join(src, "README.md")).read()
    m = re.search(r"cp\s+mutants/\S+/(\S+_test\.go)\s+(\S+)", readme)
    demo, dest = m.group(1), m.group(2).rstrip("/")
    if dest == ".":
        dest = ""
    m = re.search(r"go test ([^\n#]*?-run\s+'?(\w+)'?[^\n#]*)", readme)
    run_pat = m.group(2)
    race = "-race" in m.group(1)
    pkg = "./" + dest if dest else "."
    test_cmd = f"go test -mod=mod -vet=off -count=1 {'-race ' if race else ''}-timeout 10m -run '{run_pat}' {pkg}"
    wt = tempfile.mkdtemp(prefix="confirm-", dir="/tmp")
    os.rmdir(wt)
    meta = {"property": prop, "source": src, "demo": demo, "demo_destination": dest or ".", "demo_command": test_cmd, "confirmed_at": time.strftime("%Y-%m-%d %H:%M:%S")}
    try:
        rc, out = sh(f"git -C /repo worktree add -q --detach {wt} HEAD", "/")
        assert rc == 0, out
        head = sh("git rev-parse --short HEAD", wt)[1].strip()
        meta["repo_head"] = head
        shutil.copy(os.path.join(src, demo), os.path.join(wt, dest, demo))
        rc, out = sh(test_cmd, wt)
        meta["demo_on_clean_tree"] = "pass" if rc == 0 else "FAIL"
        clean_out = out[-1500:]
        os.remove(os.path.join(wt, dest, demo))
        rc, out = sh(f"git apply {src}/patch.diff", wt)
        if rc != 0:
            rc, out = sh(f"git apply -3 {src}/patch.diff && git reset -q", wt)
        meta["patch_applies"] = rc == 0
        if rc != 0:
            meta["verdict"] = "patch does not apply to HEAD"
            print(json.dumps(meta, indent=1)); print(out); return 1
        patch = sh("git diff", wt)[1]
        rc, out = sh("go build ./...", wt)
        meta["builds"] = rc == 0
        shutil.copy(os.path.join(src, demo), os.path.join(wt, dest, demo))
        rc, out = sh(test_cmd, wt)
        meta["demo_with_patch"] = "FAIL" if rc != 0 else "pass"
        meta["demo_failure_excerpt"] = "\n".join([l for l in out.splitlines() if "FAIL" in l or "Error" in l or "panic" in l or "---" in l][:12])
        os.remove(os.path.join(wt, dest, demo))
        if not skip_suite:
            rc, out = sh("go test -mod=mod -vet=off -count=1 -timeout 25m ./... 2>&1 | grep -v '^ok\\|no test files'", wt, timeout=3000)
            bad = [l for l in out.splitlines() if l.startswith("FAIL") or l.startswith("--- FAIL") or "panic:" in l]
            bad = [l for l in bad if "algorithm/adam" not in l and l.strip() != "FAIL"]
            meta["suite_with_patch"] = "pass (algorithm/adam does not build at the baseline either)" if not bad else "FAIL: " + "; ".join(bad[:5])
        else:
            meta["suite_with_patch"] = "not re-run"
        ok = meta["demo_on_clean_tree"] == "pass" and meta["demo_with_patch"] == "FAIL" and meta["builds"] and meta["suite_with_patch"].startswith(("pass", "not"))
        meta["verdict"] = "confirmed" if ok else "NOT confirmed"
        if meta["demo_on_clean_tree"] != "pass":
            meta["clean_tree_output"] = clean_out
        if ok:
            d = os.path.join("/verif/seeded", sid)
            os.makedirs(d, exist_ok=True)
            open(os.path.join(d, "patch.diff"), "w").write(patch)
            shutil.copy(os.path.join(src, demo), os.path.join(d, demo))
            shutil.copy(os.path.join(src, "README.md"), os.path.join(d, "README.agent.md"))
            json.dump(meta, open(os.path.join(d, "meta.json"), "w"), indent=1)
        print(json.dumps(meta, indent=1))
        return 0 if ok else 1
    finally:
        sh(f"git -C /repo worktree remove --force {wt}", "/")
        shutil.rmtree(wt, ignore_errors=True)

if __name__ == "__main__":
    sys.exit(main())
