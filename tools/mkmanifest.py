#!/usr/bin/env python3
"""Regenerates /verif/MANIFEST.json from the table below (single source)."""
import json, os, subprocess
V = os.path.dirname(os.path.dirname(os.path.abspath(__file__)))

NA = {
 "C01": "value/gradient/Hessian of an expression at a point is a pure function of (program, point); no schedule, history, clock, stream or callback exists to simulate, only inputs to generate",
 "C02": "per-type agreement with the named mathematical function is a pure function of (operation, type, operand); nothing to schedule or fault",
 "C03": "storage-independence of a single operation is a pure function of (operands, storage combination, prior receiver content); the history aspect of sparse containers is C11, which is claimed",
 "C04": "defining equations of solve/inverse/determinant are checked on the output of one deterministic call; no concurrency, I/O, time or environment",
 "C05": "factor reconstruction and structure are a pure function of the input matrix and options (termination of the iterative ones is C20, claimed)",
 "C06": "derivative propagation and fast-path = generic-path equality compare two deterministic computations on the same input; nothing to interleave or fail",
 "C08": "alias-independence compares one call under different argument identities; a single-step, single-thread input pattern, not a history or schedule",
 "C09": "generic vs concrete method equality is a differential test over inputs; no nondeterminism or fault surface",
 "C13": "numerical accuracy of special functions over their domain is a pure function of float64 arguments",
 "C14": "properness and consistency of densities are analytic properties of pure functions of (parameters, point); the tiny get/set/clone clause has no interleaving",
 "C15": "forward-backward/Viterbi vs path enumeration is a pure function of (model, sequence); the only schedule-dependent part (pool-based batch evaluation) is decided under C17",
}

# property -> (engine, level, technique, text, note, design_ref)
CHECKS = {}
PENDING = {}

def check(pid, engine, level, technique, text, note, ref):
    CHECKS[pid] = dict(engine=engine, level=level, technique=technique, text=text, note=note, ref=ref)

exec(open(os.path.join(V, "tools", "checks_table.py")).read())

def hook_commits():
    p = os.path.join(V, "tools", "hook_commits.txt")
    return [l.strip() for l in open(p) if l.strip()] if os.path.exists(p) else []

m = {
 "version": 1,
 "setup_cmd": "bin/setup",
 "hooks": {
  "guard": "verif (Go build tag)",
  "enable": "go build -tags verif (bin/check does this; package verifhook: Tick() is an empty function without the tag)",
  "baseline_off_cmd": "cd /repo && go test -mod=mod -vet=off -count=1 -timeout 25m ./...",
  "source_commits": hook_commits(),
  "add_only": True,
 },
 "engines": [
  {"name": "A: simulated thread pool", "path": "sim/simpool, sim/poolsim, cmd/poolsim", "serves_properties": ["C16", "C17"], "kind_free_text": "fork of github.com/pbenner/threadpool swapped in at the module boundary; serialized baton scheduling decided by the tape; -race build with modelled happens-before"},
  {"name": "B: shared-storage world simulator", "path": "sim/avl, sim/world", "serves_properties": ["C10", "C11", "C12", "C19"], "kind_free_text": "seeded interleaving of handles (views, clones, iterators) on shared storage vs dense / sorted-set reference model"},
  {"name": "C: optimizer-in-an-environment simulator", "path": "sim/optenv", "serves_properties": ["C07"], "kind_free_text": "the simulator is the objective, constraint and hook; injects evaluation errors, NaN, cancellation, caps"},
  {"name": "D: storage simulator", "path": "sim/store", "serves_properties": ["C18"], "kind_free_text": "real writers and readers, simulated medium (torn / flipped / short / gzip faults) in between"},
  {"name": "E: step clock", "path": "sim/ticks + /repo verifhook", "serves_properties": ["C20"], "kind_free_text": "tick seam in unbounded loops, polynomial budgets, degenerate inputs; misuse as fault kind"},
 ],
 "checks": [],
 "not_applicable": [],
 "notes": "All checks: bin/check <id> --tier quick|thorough; replay: bin/check <id> --replay <file>. Exit 0 held / 1 VIOLATION / 2 build or harness trouble (never a verdict). Known findings: known_findings.jsonl.",
}
for pid in sorted(CHECKS):
    c = CHECKS[pid]
    m["checks"].append({
        "property_id": pid,
        "quick_cmd": f"bin/check {pid} --tier quick",
        "thorough_cmd": f"bin/check {pid} --tier thorough",
        "evidence_file": f"/verif/evidence/{pid}.json",
        "replay_cmd_template": f"bin/check {pid} --replay {{path}}",
        "engine": c["engine"],
        "level_claimed": {"category": c["level"], "text": c["text"], "design_ref": c["ref"]},
        "level_note": c["note"],
        "technique": c["technique"],
    })
for pid in sorted(NA):
    m["not_applicable"].append({"property_id": pid, "reason": NA[pid]})
for pid in sorted(PENDING):
    if pid not in CHECKS:
        m["not_applicable"].append({"property_id": pid, "reason": PENDING[pid]})
json.dump(m, open(os.path.join(V, "MANIFEST.json"), "w"), indent=1)
print("MANIFEST.json:", len(m["checks"]), "checks,", len(m["not_applicable"]), "not applicable")
