#!/bin/bash
# tools/mutant_run.sh <patch.diff> <property> [more properties...]
# Applies a seeded change to /repo, runs the quick checks, reverts. Prints one summary line per property.
patch="$1"; shift
cd /repo || exit 2
if [ -n "$(git status --porcelain)" ]; then echo "/repo not clean"; exit 2; fi
if ! git apply "$patch" 2>/dev/null; then
  if ! git apply -3 "$patch" >/dev/null 2>&1; then echo "PATCH DOES NOT APPLY: $patch"; git checkout -- . ; exit 3; fi
  git reset -q
fi
cd /verif
for p in "$@"; do
  out=$(VERIF_MAX_S=${VERIF_MAX_S:-120} bin/check "$p" --tier "${TIER:-quick}" 2>&1); rc=$?
  nv=$(echo "$out" | grep -c "^VIOLATION")
  echo "$(basename $(dirname $patch))/$(basename $patch) $p exit=$rc violations=$nv $(echo "$out" | grep '^  C' | head -3 | tr '\n' ';')"
done
git -C /repo checkout -- . 
git -C /repo status --porcelain | head -3
