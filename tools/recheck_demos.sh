#!/bin/bash
# tools/recheck_demos.sh: for every seeded change, on a scratch worktree of /repo's HEAD:
# demo passes without the patch, fails with it.  Prints one line per change that does not behave.
cd "$(dirname "$0")/.." || exit 2
export GOFLAGS=-mod=mod GOPROXY=off GOSUMDB=off GOTOOLCHAIN=local
wt=/tmp/wt-recheck; git -C /repo worktree remove --force $wt 2>/dev/null; git -C /repo worktree add -q --detach $wt HEAD || exit 2
bad=0; n=0
for d in seeded/*/; do
  id=$(basename $d); n=$((n+1))
  demo=$(python3 -c "import json;m=json.load(open('$d/meta.json'));print(m['demo'])")
  dest=$(python3 -c "import json;m=json.load(open('$d/meta.json'));print(m['demo_destination'])")
  cmd=$(python3 -c "import json;m=json.load(open('$d/meta.json'));print(m['demo_command'])")
  git -C $wt reset -q --hard; git -C $wt clean -fdq
  cp $d/$demo $wt/$dest/
  (cd $wt && eval "$cmd" >/dev/null 2>&1); clean=$?
  git -C $wt apply $PWD/$d/patch.diff 2>/dev/null || { echo "$id: patch does not apply"; bad=$((bad+1)); continue; }
  (cd $wt && eval "$cmd" >/dev/null 2>&1); patched=$?
  if [ $clean != 0 ] || [ $patched = 0 ]; then echo "$id: demo on clean tree exit=$clean, with patch exit=$patched"; bad=$((bad+1)); fi
done
git -C /repo worktree remove --force $wt
echo "$n seeded changes re-checked against $(git -C /repo rev-parse --short HEAD), $bad do not behave"
