#!/bin/bash
# tools/seeded_at.sh <seeded-id> [tier] [property]: applies a seeded change in a scratch worktree of /repo's HEAD and
# runs the check of its property (or the given one) against that tree (tools/check_at); /repo is not touched.
cd "$(dirname "$0")/.." || exit 2
id=$1; tier="${2:-quick}"; d=seeded/$id
prop="${3:-$(python3 -c "import json;print(json.load(open('$d/meta.json'))['property'])")}"
wt=/tmp/wt-s-$id
git -C /repo worktree remove --force $wt 2>/dev/null
git -C /repo worktree add -q --detach $wt HEAD || exit 2
if ! git -C $wt apply $PWD/$d/patch.diff 2>/dev/null && ! (git -C $wt apply -3 $PWD/$d/patch.diff >/dev/null 2>&1 && git -C $wt reset -q); then echo "$id patch does not apply"; git -C /repo worktree remove --force $wt; exit 2; fi
res=$(tools/check_at $wt $prop --tier $tier 2>&1); rc=$?
git -C /repo worktree remove --force $wt; rm -rf /tmp/check_at/_tmp_wt-s-$id
sigs=$(echo "$res" | grep "^  $prop|" | sed 's/^  //' | head -4 | tr '\n' ';')
[ $rc = 2 ] && sigs=$(echo "$res" | grep -m2 "HARNESS\|BUILD\|error" | tr '\n' ';')
echo "| $id | $prop | $tier | $rc | $sigs |"
