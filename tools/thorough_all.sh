#!/bin/bash
# tools/thorough_all.sh <seed> [ids...]: builds both engines once into a private directory and runs the
# thorough tier of every (or the given) property from those binaries, one after the other.
# Logs: /verif/.build/thorough/<id>.seed<seed>.log ; summary on stdout.
cd /verif || exit 2
export VERIF_DIR=/verif GOFLAGS=-mod=mod GOPROXY=off GOSUMDB=off GOTOOLCHAIN=local CGO_ENABLED=1
seed="${1:-1}"; shift
ids=("$@"); [ ${#ids[@]} = 0 ] && ids=(C19 C11 C12 C20 C10 C16 C17 C18 C07)
d=.build/thorough/bin.$seed; mkdir -p $d
cp /repo/go.sum go.sum; cp go.sum go.pool.sum
go build -modfile=go.mod -tags verif -o $d/vsim ./cmd/vsim || exit 2
go build -modfile=go.pool.mod -race -tags verif -o $d/poolsim ./cmd/poolsim || exit 2
for id in "${ids[@]}"; do
  case $id in C16|C17) b=$d/poolsim;; *) b=$d/vsim;; esac
  log=.build/thorough/$id.seed$seed.log
  start=$(date +%s)
  VERIF_SEED=$seed $b check -property $id -tier thorough > $log 2>&1; rc=$?
  cp evidence/$id.json .build/thorough/$id.seed$seed.evidence.json 2>/dev/null
  echo "$id seed=$seed rc=$rc $(( $(date +%s) - start ))s $(tail -1 $log | cut -c1-200)"
done
