DST = "deterministic simulation with fault injection: "
check("C19", "B: shared-storage world simulator", "exploration",
  DST + "seeded interleaving of tree, clone and live-iterator handles; sorted-set reference model + structural invariants after every step; shrunk replay files",
  "Seeded search over histories (<=60 operations, <=3 trees, <=4 live iterators, four key universes) in which the tape decides which handle acts next; after every step every tree is compared with a sorted-set model (membership, return values, lower bound, full iteration) and its structure (BST order, balance factor = height difference in {-1,0,1}, parent links, no reachable Deleted node) is checked; after every Next() the exact-successor oracle on the current set is applied. Evidence, not proof: it samples histories.",
  "Trusted: the sorted-set model (40 lines), Go runtime. Assumes keys <= MaxInt-1. Single caller thread (the tree is not thread-safe by contract).",
  "DESIGN.md §3.B, §4 C19")
check("C10", "B: shared-storage world simulator", "exploration",
  DST + "seeded interleaving of root, Slice/T/ConstSlice view handles (nested) on shared storage; index-map reference model read back after every step + differential against an independent deep copy; shrunk replay files",
  "Seeded search over histories of <=40 steps on one root matrix (dense or sparse, 9 element types, 0..5 x 0..5) and <=5 live views nested to depth 3. The tape picks the acting handle and one of ~50 operations (writes, bulk mutators, arithmetic as receiver and as operand, iterators, Row/Col/Diag, AsVector, printing, JSON and Export/Import round trips, copy accessors that are then written to, Tip). After every step every handle is read back against an index map that says which storage element it denotes (write-through, nothing outside the view touched), and every operation on a view must agree with the same operation on a deep copy built through At().Set(). Evidence, not proof.",
  "Trusted: index-map model and deep copy built via At/ConstAt/Set (assumes element access on un-viewed matrices is right). Operands never alias the receiver (C08). One open finding (C10-F2, sparse T() is not a reference view) is kept out of the search by treating sparse T() handles as snapshots.",
  "DESIGN.md §3.B, §4 C10")
check("C11", "B: shared-storage world simulator", "exploration",
  DST + "seeded histories on one sparse vector / sparse matrix with live iterators and slice handles as interleaved actors; dense model of the same history checked after every step; shrunk replay files",
  "Seeded search over histories of <=50 public operations (element access that creates entries, explicit zeros, Set, Reset, SetIdentity, Swap, Permute, Sort, ReverseOrder, Slice, Append, element-wise / scalar / matrix-vector arithmetic with dense and sparse operands, Map, Reduce, Equals, iteration, Tip) on one sparse container of a drawn element type, interleaved by the tape with <=3 partially consumed iterators (which may be written through) and Slice views. A plain []float64 model computes the semantics itself; after every step every in-range read and Dim is compared, iteration sweeps are scheduled operations, live iterators must stand on the next non-zero position of the current state. Evidence, not proof.",
  "Trusted: the dense model (plain loops), exact small-integer arithmetic incl. integer wrap-around. No derivatives attached. Receiver/operand aliasing excluded (C08). After Sort/Permute/ReverseOrder/Append/Tip nothing is demanded of older iterators.",
  "DESIGN.md §3.B, §4 C11")
check("C12", "B: shared-storage world simulator (+ E step clock)", "exploration",
  DST + "seeded interleaving of mutations on an object and its copy (snapshot independence), operand snapshots around library calls, algorithm sessions with re-used in-situ objects under the step clock; shrunk replay files",
  "Six scenarios: (1) a source container (any storage, element type, nested view, derivatives) copied by a drawn Clone/As-conversion, equal at creation, then <=16 interleaved mutations of either side with the passive side compared to its snapshot; (2) operands of arithmetic/iteration/print calls unchanged; (3) 21 algorithm entry points called 1..3 times per session with fresh or re-used nil-buffer InSitu objects, all caller objects of the session compared after each call; (4) clones of partially consumed iterators (7 kinds) advanced in drawn interleavings; (5) scalar clones incl. derivative/Hessian state; (6) distribution constructors, GetParameters/SetParameters and CloneScalarPdf of 12 families. No model of operation semantics is needed: the oracle is that acting on one handle never changes what the other shows. Evidence, not proof.",
  "Trusted: observation through ConstAt/GetDerivative. Panics of operations whose correctness belongs to other properties are counted, not reported. gaussJordan.Run is in-place by signature and excluded. Vector/matrix distributions and estimators' data arguments are covered only through engine A's input snapshots (C17).",
  "DESIGN.md §3.B, §4 C12")
for pid, why in {
  "C07": "claimed in DESIGN.md (engine C); check not yet built in this commit",
  "C16": "claimed in DESIGN.md (engine A); check not yet built in this commit",
  "C17": "claimed in DESIGN.md (engine A); check not yet built in this commit",
  "C18": "claimed in DESIGN.md (engine D); check not yet built in this commit",
  "C20": "claimed in DESIGN.md (engine E); check not yet built in this commit",
}.items():
    PENDING[pid] = why
