DST = "deterministic simulation with fault injection: "
check("C19", "B: shared-storage world simulator", "exploration",
  DST + "seeded interleaving of tree, clone and live-iterator handles; sorted-set reference model + structural invariants after every step; shrunk replay files",
  "Seeded search over histories (<=60 operations, <=3 trees, <=4 live iterators, four key universes) in which the tape decides which handle acts next; after every step every tree is compared with a sorted-set model (membership, return values, lower bound, full iteration) and its structure (BST order, balance factor = height difference in {-1,0,1}, parent links, no reachable Deleted node) is checked; after every Next() the exact-successor oracle on the current set is applied. Evidence, not proof: it samples histories.",
  "Trusted: the sorted-set model (40 lines), Go runtime. Assumes keys <= MaxInt-1. Single caller thread (the tree is not thread-safe by contract).",
  "DESIGN.md §3.B, §4 C19")
for pid, why in {
  "C07": "claimed in DESIGN.md (engine C); check not yet built in this commit",
  "C10": "claimed in DESIGN.md (engine B); check not yet built in this commit",
  "C11": "claimed in DESIGN.md (engine B); check not yet built in this commit",
  "C12": "claimed in DESIGN.md (engine B); check not yet built in this commit",
  "C16": "claimed in DESIGN.md (engine A); check not yet built in this commit",
  "C17": "claimed in DESIGN.md (engine A); check not yet built in this commit",
  "C18": "claimed in DESIGN.md (engine D); check not yet built in this commit",
  "C20": "claimed in DESIGN.md (engine E); check not yet built in this commit",
}.items():
    PENDING[pid] = why
