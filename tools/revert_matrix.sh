#!/bin/bash
# tools/revert_matrix.sh [tier]: for every "fixed:" line of known_findings.jsonl,
# re-introduces the defect (reverse-applies the fix: commit to /repo's working
# tree), runs the check of the property it is recorded under, undoes it, and
# writes /verif/seeded/REVERTS.md.  "A fixed entry suppresses nothing": each of
# these must make the check report a violation again.
cd /verif || exit 2
export GOFLAGS=-mod=mod GOPROXY=off GOSUMDB=off GOTOOLCHAIN=local
tier="${1:-quick}"
out=seeded/REVERTS.md
if [ -n "$(git -C /repo status --porcelain)" ]; then echo "/repo not clean"; exit 2; fi
echo "| fix commit | property | reverted cleanly | check ($tier) exit | violation signatures |" > $out
echo "|---|---|---|---|---|" >> $out
grep '^fixed:' known_findings.jsonl | while read -r _ propkv commit rest; do
  prop=${propkv#property=}
  if ! git -C /repo diff "$commit^" "$commit" | git -C /repo apply -R 2>/dev/null; then
    if ! git -C /repo diff "$commit^" "$commit" | git -C /repo apply -R --3way 2>/dev/null; then
      git -C /repo checkout -- . ; git -C /repo reset -q
      echo "| $commit | $prop | no (later commits touch the same lines) | - | |" >> $out
      continue
    fi
    git -C /repo reset -q
  fi
  if ! (cd /repo && go build ./... 2>/dev/null); then
    git -C /repo checkout -- .
    echo "| $commit | $prop | does not build | - | |" >> $out
    continue
  fi
  log=$(mktemp)
  VERIF_SEED=1 VERIF_STALL_S=30 bin/check $prop --tier $tier > $log 2>&1
  rc=$?
  sigs=$(grep "^  $prop|" $log | sed 's/^  //' | head -4 | tr '\n' ';')
  kf=$(grep -c '^VIOLATION' $log)
  echo "| $commit | $prop | yes | $rc ($kf VIOLATION lines) | $sigs |" >> $out
  rm -f $log
  git -C /repo checkout -- .
done
git -C /repo status --porcelain
cat $out
