#!/bin/bash
# tools/revert_matrix.sh [tier]: for every "fixed:" line of known_findings.jsonl,
# re-introduces the defect (reverse-applies the fix: commit in a scratch worktree
# of /repo's HEAD), runs the check of the property it is recorded under against
# that tree (tools/check_at), and writes /verif/seeded/REVERTS.md.  "A fixed entry
# suppresses nothing": each of these must make the check report a violation again.
cd "$(dirname "$0")/.." || exit 2
export GOFLAGS=-mod=mod GOPROXY=off GOSUMDB=off GOTOOLCHAIN=local
tier="${1:-quick}"
out=seeded/REVERTS.md
wt=/tmp/wt-revert
git -C /repo worktree remove --force $wt 2>/dev/null
git -C /repo worktree add -q --detach $wt HEAD || exit 2
echo "| fix commit | property | reverted cleanly | check ($tier) exit | violation signatures |" > $out
echo "|---|---|---|---|---|" >> $out
grep '^fixed:' known_findings.jsonl | while read -r _ propkv commit rest; do
  prop=${propkv#property=}
  git -C $wt reset -q --hard; git -C $wt clean -fdq
  if ! git -C /repo diff "$commit^" "$commit" | git -C $wt apply -R 2>/dev/null; then
    if ! git -C /repo diff "$commit^" "$commit" | git -C $wt apply -R --3way 2>/dev/null; then
      git -C $wt reset -q --hard
      echo "| $commit | $prop | no (later commits touch the same lines) | - | |" >> $out
      continue
    fi
    git -C $wt reset -q
  fi
  if ! (cd $wt && go build ./... 2>/dev/null); then
    echo "| $commit | $prop | does not build | - | |" >> $out
    continue
  fi
  log=$(mktemp)
  VERIF_SEED=1 tools/check_at $wt $prop --tier $tier > $log 2>&1
  rc=$?
  sigs=$(grep "^  $prop|" $log | sed 's/^  //' | head -4 | tr '\n' ';')
  kf=$(grep -c '^VIOLATION' $log)
  [ $rc = 2 ] && sigs="$(grep -m2 'HARNESS\|BUILD' $log | tr '\n' ';')"
  echo "| $commit | $prop | yes | $rc ($kf VIOLATION lines) | $sigs |" >> $out
  echo "$commit $prop rc=$rc $sigs" | cut -c1-200
  rm -f $log
done
git -C /repo worktree remove --force $wt

cat $out | cut -c1-250
