#!/bin/bash
# tools/seeded_one.sh <seeded-id> [tier]: re-runs one seeded change and rewrites its row in seeded/RESULTS.md
cd "$(dirname "$0")/.." || exit 2
id=$1; tier="${2:-quick}"; d=seeded/$id; out=seeded/RESULTS.md
prop=$(python3 -c "import json;print(json.load(open('$d/meta.json'))['property'])")
[ -n "$(git -C /repo status --porcelain)" ] && { echo "/repo dirty"; exit 2; }
git -C /repo apply $PWD/$d/patch.diff || exit 2
res=$(bin/check $prop --tier $tier 2>&1); rc=$?
git -C /repo checkout -- .
sigs=$(echo "$res" | grep "^  $prop|" | sed 's/^  //' | head -4 | tr '\n' ';')
row="| $id | $prop | bin/check $prop | $rc | $sigs |"
python3 - "$d/meta.json" "$rc" "$sigs" "$tier" "$out" "$id" "$row" <<'PY'
import json,sys
m=json.load(open(sys.argv[1])); m.setdefault('detected_by',{})[sys.argv[4]]={'exit':int(sys.argv[2]),'signatures':[s for s in sys.argv[3].split(';') if s]}
json.dump(m,open(sys.argv[1],'w'),indent=1)
ls=open(sys.argv[5]).read().splitlines()
ls=[sys.argv[7] if l.startswith('| %s |'%sys.argv[6]) else l for l in ls]
open(sys.argv[5],'w').write('\n'.join(ls)+'\n')
PY
echo "$row"
