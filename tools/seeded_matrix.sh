#!/bin/bash
# tools/seeded_matrix.sh [tier]: applies every seeded change in /verif/seeded to /repo in turn, runs the check of
# its property, undoes it, and writes /verif/seeded/RESULTS.md + detected_by into meta.json.
cd "$(dirname "$0")/.." || exit 2
tier="${1:-quick}"
out=seeded/RESULTS.md
echo "| seeded change | property | check ($tier) | exit | violation signatures |" > $out
echo "|---|---|---|---|---|" >> $out
for d in seeded/*/; do
  id=$(basename $d); prop=$(python3 -c "import json;print(json.load(open('$d/meta.json'))['property'])")
  [ -n "$(git -C /repo status --porcelain)" ] && { echo "/repo dirty"; exit 2; }
  git -C /repo apply $PWD/$d/patch.diff || { echo "| $id | $prop | patch does not apply | - | - |" >> $out; continue; }
  res=$(bin/check $prop --tier $tier 2>&1); rc=$?
  git -C /repo checkout -- .
  sigs=$(echo "$res" | grep "^  $prop|" | sed 's/^  //' | head -4 | tr '\n' ';')
  echo "| $id | $prop | bin/check $prop | $rc | $sigs |" >> $out
  python3 - "$d/meta.json" "$rc" "$sigs" "$tier" <<'PY'
import json,sys
m=json.load(open(sys.argv[1])); m.setdefault('detected_by',{})[sys.argv[4]]={'exit':int(sys.argv[2]),'signatures':[s for s in sys.argv[3].split(';') if s]}
json.dump(m,open(sys.argv[1],'w'),indent=1)
PY
  echo "$id rc=$rc $sigs"
done
git -C /repo status --porcelain | head -2
