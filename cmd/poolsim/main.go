// poolsim hosts engine A: the simulated thread pool.  It is built with -race
// against the swapped pool module (go.pool.mod).
package main

import (
	"verif/sim/core"
	_ "verif/sim/poolsim"
)

func main() { core.Main() }
