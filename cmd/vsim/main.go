// vsim hosts the engines that run against the real thread pool (B: shared
// storage world, C: optimizer environment, D: storage simulator, E: step
// clock).  Engine A (simulated thread pool) lives in cmd/poolsim because it is
// built with -race against the swapped pool module.
package main

import (
	_ "verif/sim/avl"
	_ "verif/sim/optenv"
	_ "verif/sim/store"
	_ "verif/sim/termin"
	_ "verif/sim/world"
	"verif/sim/core"
)

func main() { core.Main() }
